"""C19: the GC guard of claripy/backends/backend_z3.py, proved for any number of threads.

(1) lock coverage (syntactic, on the parsed source): the two globals are only touched inside
    `with _gc_lock:`; nobody else in the package writes them or toggles the collector.
(2) monitor invariant over the two real critical sections (_enter_z3/_exit_z3 executed under pyvc with a
    symbolic counter, symbolic saved flag, ghost collector and ghost lock).
(3) balance of the real `condom` wrapper: exactly one _enter_z3 before and one _exit_z3 after f on
    every path, exceptional ones included.
Given (1), every interleaving of any number of threads is a sequence of atomic executions of the two
critical sections, so (2) is an inductive invariant of all schedules and (3) ties N to the calls in
progress."""
from __future__ import annotations

import ast
import os
import z3

from vf.engine import loader, paths, proxies
from vf.engine.paths import cur, explore
from vf.engine.proxies import SymInt, SymBool

REL = "claripy/backends/backend_z3.py"
GLOBALS = ("_active_z3_calls", "_gc_was_enabled")


def ob_lock_coverage():
    """Syntactic obligation, reported in the same Result format."""
    res = paths.Result()
    src = open(os.path.join(loader.REPO, REL)).read()
    import hashlib
    loader.SOURCES[REL] = hashlib.sha256(src.encode()).hexdigest()
    tree = ast.parse(src)
    problems = []
    n_access = 0

    class V(ast.NodeVisitor):
        def __init__(self):
            self.lock_depth = 0
            self.fn = None

        def visit_FunctionDef(self, node):
            old, self.fn = self.fn, node.name
            old_depth, self.lock_depth = self.lock_depth, 0
            self.generic_visit(node)
            self.fn, self.lock_depth = old, old_depth

        visit_AsyncFunctionDef = visit_FunctionDef

        def visit_With(self, node):
            locked = any(isinstance(i.context_expr, ast.Name) and i.context_expr.id == "_gc_lock" for i in node.items)
            for i in node.items:
                self.visit(i)
            if locked:
                self.lock_depth += 1
            for s in node.body:
                self.visit(s)
            if locked:
                self.lock_depth -= 1

        def visit_Name(self, node):
            nonlocal n_access
            if node.id in GLOBALS:
                if self.fn is None:
                    if isinstance(node.ctx, ast.Store):
                        return  # module-level initialisation
                    problems.append(f"module-level read of {node.id} line {node.lineno}")
                    return
                n_access += 1
                if self.lock_depth == 0:
                    problems.append(f"{node.id} accessed outside `with _gc_lock` in {self.fn} line {node.lineno}")

        def visit_Call(self, node):
            f = node.func
            if isinstance(f, ast.Attribute) and isinstance(f.value, ast.Name) and f.value.id == "gc" and \
                    f.attr in ("enable", "disable", "freeze", "unfreeze", "set_threshold"):
                if self.fn not in ("_enter_z3", "_exit_z3") or self.lock_depth == 0:
                    problems.append(f"gc.{f.attr}() outside the locked critical sections ({self.fn} line {node.lineno})")
            self.generic_visit(node)

    V().visit(tree)
    # frame: the counter and the saved collector state are the ONLY module-level variables a function of this module rebinds.  The argument
    # "every wrapped call enters before and exits after its body, exactly once" is about one call in isolation; it carries over to any number
    # of threads only if condom / _enter_z3 / _exit_z3 keep no other state that threads share (a process-wide nesting depth, a cached flag...)
    for fn_node in [n for n in ast.walk(tree) if isinstance(n, (ast.FunctionDef, ast.AsyncFunctionDef))]:
        for g in [n for n in ast.walk(fn_node) if isinstance(n, (ast.Global, ast.Nonlocal))]:
            for name in g.names:
                written = any(isinstance(n, ast.Name) and n.id == name and isinstance(n.ctx, (ast.Store, ast.Del)) for n in ast.walk(fn_node))
                if name not in GLOBALS and written:
                    problems.append(f"{fn_node.name} (line {g.lineno}) rebinds the shared variable {name}, which is not one of the lock-guarded variables {GLOBALS}")
    # pairing: wherever a backend call takes the guard, it gives it back on EVERY exit - `_enter_z3()` only inside the body of a try whose
    # finally calls `_exit_z3()`, and `_exit_z3()` only in such a finally (condom is written this way; a helper that enters and leaves on
    # the normal path only leaks the count when the solver gives up)
    def _calls(node, name):
        return [n for n in ast.walk(node) if isinstance(n, ast.Call) and isinstance(n.func, ast.Name) and n.func.id == name]
    paired_enter, paired_exit = set(), set()
    for t in [n for n in ast.walk(tree) if isinstance(n, ast.Try)]:
        ent = [c_ for st in t.body for c_ in _calls(st, "_enter_z3")]
        ext = [c_ for st in t.finalbody for c_ in _calls(st, "_exit_z3")]
        if ent and ext:
            paired_enter |= {id(c_) for c_ in ent}
            paired_exit |= {id(c_) for c_ in ext}
    for fn_node in [n for n in ast.walk(tree) if isinstance(n, (ast.FunctionDef, ast.AsyncFunctionDef)) and n.name not in ("_enter_z3", "_exit_z3")]:
        for c_ in _calls(fn_node, "_enter_z3"):
            n_access += 1
            if id(c_) not in paired_enter:
                problems.append(f"{fn_node.name} (line {c_.lineno}) calls _enter_z3() outside a try whose finally calls _exit_z3(): an exception leaves the collector disabled")
        for c_ in _calls(fn_node, "_exit_z3"):
            n_access += 1
            if id(c_) not in paired_exit:
                problems.append(f"{fn_node.name} (line {c_.lineno}) calls _exit_z3() outside the finally of a try that entered")
    # _gc_lock bound exactly once, to threading.Lock()
    binds = [n for n in ast.walk(tree) if isinstance(n, ast.Assign) and any(isinstance(t, ast.Name) and t.id == "_gc_lock" for t in n.targets)]
    if len(binds) != 1 or ast.unparse(binds[0].value) not in ("threading.Lock()", "threading.RLock()"):
        problems.append("_gc_lock is not bound exactly once to threading.Lock()")
    # module-level initial values establish the invariant for N = 0
    init = {t.id: ast.unparse(n.value) for n in tree.body if isinstance(n, ast.Assign) for t in n.targets if isinstance(t, ast.Name) and t.id in GLOBALS}
    if init.get("_active_z3_calls") != "0" or init.get("_gc_was_enabled") != "False":
        problems.append(f"initial values {init} do not establish the invariant")
    # nobody else in the package writes the globals or toggles the collector
    pkg = os.path.join(loader.REPO, "claripy")
    for dp, _, fns in os.walk(pkg):
        for fn in fns:
            if not fn.endswith(".py"):
                continue
            p = os.path.join(dp, fn)
            if os.path.samefile(p, os.path.join(loader.REPO, REL)):
                continue
            t = ast.parse(open(p).read())
            for n in ast.walk(t):
                if isinstance(n, ast.Attribute) and n.attr in GLOBALS and isinstance(n.ctx, (ast.Store, ast.Del)):
                    problems.append(f"{os.path.relpath(p, loader.REPO)} writes {n.attr}")
                if isinstance(n, ast.Call) and isinstance(n.func, ast.Attribute) and isinstance(n.func.value, ast.Name) \
                        and n.func.value.id == "gc" and n.func.attr in ("enable", "disable", "freeze"):
                    problems.append(f"{os.path.relpath(p, loader.REPO)} line {n.lineno} calls gc.{n.func.attr}()")
    res.paths = 1
    res.vcs = n_access + 3
    if n_access < 6:
        problems.append(f"only {n_access} accesses to the guarded globals found (coverage lost?)")
    for p in problems:
        res.failures.append(paths.Failure("lock_coverage", "frame", {}, p, []))
    res.status = "violated" if problems else "discharged"
    res.samples = [{"accesses_checked": n_access}]
    return res


class GhostLock:
    def __init__(self, c):
        self.c = c
        self.held = False
        self.acquired = 0

    def __enter__(self):
        if self.held:
            self.c.fail("lock/reentry", "lock acquired while held (deadlock with threading.Lock)")
        self.held = True
        self.acquired += 1
        return self

    def __exit__(self, *a):
        self.held = False
        return False


class GhostGC:
    def __init__(self, c, flag):
        self.c, self.flag, self.lock = c, flag, None

    def _locked(self, what):
        if not self.lock.held:
            self.c.fail("gc/" + what + "-unlocked", f"gc.{what}() called without holding _gc_lock")

    def isenabled(self):
        self._locked("isenabled")
        return SymBool(self.flag)

    def enable(self):
        self._locked("enable")
        self.flag = z3.BoolVal(True)

    def disable(self):
        self._locked("disable")
        self.flag = z3.BoolVal(False)


class LogStub:
    def __init__(self):
        self.errors = 0

    def error(self, *a, **k):
        self.errors += 1

    def __getattr__(self, n):
        return lambda *a, **k: None


_ns = {}


def load():
    if "ns" not in _ns:
        _ns["ns"] = loader.load(REL, "claripy.backends.backend_z3")
    return _ns["ns"]


def _setup(c, ns, n_lo, n_hi):
    proxies.set_iw(20)
    N = SymInt.fresh("N", n_lo, n_hi)          # calls in progress (ghost)
    gcflag = z3.Bool("gc_enabled")
    g0 = z3.Bool("g0")                          # collector state when N last rose from 0 (ghost)
    was = z3.Bool("was")
    cnt = SymInt.fresh("cnt")
    for k, v in (("gc_enabled", gcflag), ("g0", g0), ("was", was)):
        c.watch[k] = v
    # invariant I(N)
    c.assume(cnt.z == N.z)
    c.assume(z3.Implies(N.z > 0, z3.And(z3.Not(gcflag), was == g0)))
    c.assume(z3.Implies(N.z == 0, z3.Not(was)))
    lock = GhostLock(c)
    gc = GhostGC(c, gcflag)
    gc.lock = lock
    log = LogStub()
    ns["_active_z3_calls"] = cnt
    ns["_gc_was_enabled"] = SymBool(was)
    ns["gc"] = gc
    ns["_gc_lock"] = lock
    ns["log"] = log
    return N, gcflag, g0, gc, lock, log


def _state(ns):
    cnt = proxies._bv(ns["_active_z3_calls"])
    was = proxies.zbool(ns["_gc_was_enabled"]) if isinstance(ns["_gc_was_enabled"], (bool, SymBool)) else None
    return cnt, was


def _inv(c, label, ns, Nz, gcflag, g0):
    cnt, was = _state(ns)
    if was is None:
        c.fail(label + "/type", "_gc_was_enabled is not a boolean")
        return
    c.watch["cnt'"], c.watch["was'"], c.watch["gc'"] = cnt, was, gcflag
    c.check(label + "/count", cnt == Nz, "counter != number of calls in progress", kind="invariant")
    c.check(label + "/nonneg", cnt >= 0, "counter negative", kind="invariant")
    c.check(label + "/gc-disabled-while-active", z3.Implies(Nz > 0, z3.Not(gcflag)),
            "collector enabled while a call is in progress", kind="invariant")
    c.check(label + "/saved-flag", z3.Implies(Nz > 0, was == g0), "saved flag lost", kind="invariant")
    c.check(label + "/saved-flag-reset", z3.Implies(Nz == 0, z3.Not(was)), "saved flag not reset at 0", kind="invariant")


def ob_enter():
    ns = load()

    def body(c):
        N, gcflag, g0, gc, lock, log = _setup(c, ns, 0, 5000)
        try:
            ns["_enter_z3"]()
        except Exception as e:
            if isinstance(e, (paths.PathEnd, paths.Undecided)):
                raise
            c.fail("_enter_z3/raises", f"raised {type(e).__name__}: {e}")
            return "exc"
        if lock.held or lock.acquired != 1:
            c.fail("_enter_z3/lock", "lock not acquired exactly once / not released")
        g0n = z3.If(N.z == 0, gcflag, g0)
        _inv(c, "_enter_z3", ns, N.z + 1, gc.flag, g0n)
        return "ret"

    return explore(body, {"budget_s": 120})


def ob_exit():
    ns = load()

    def body(c):
        N, gcflag, g0, gc, lock, log = _setup(c, ns, 0, 5000)
        under = c.branch(N.z == 0, "N==0")
        try:
            ns["_exit_z3"]()
        except Exception as e:
            if isinstance(e, (paths.PathEnd, paths.Undecided)):
                raise
            c.fail("_exit_z3/raises", f"raised {type(e).__name__}: {e}")
            return "exc"
        if lock.held or lock.acquired != 1:
            c.fail("_exit_z3/lock", "lock not acquired exactly once / not released")
        if under:
            _inv(c, "_exit_z3[underflow]", ns, N.z, gc.flag, g0)
            c.check("_exit_z3[underflow]/gc-untouched", gc.flag == gcflag, "underflow branch toggled the collector")
            return "underflow"
        _inv(c, "_exit_z3", ns, N.z - 1, gc.flag, g0)
        c.check("_exit_z3/restore", z3.Implies(N.z - 1 == 0, gc.flag == g0),
                "collector state after the last call returned differs from the state before the first call")
        return "ret"

    return explore(body, {"budget_s": 120})


class _Boom(Exception):
    pass


def ob_condom():
    ns = load()
    import z3 as realz3

    def body(c):
        trace = []
        ns["_enter_z3"] = lambda: trace.append("enter")
        ns["_exit_z3"] = lambda: trace.append("exit")
        hi = c.choose([True, True, True], "install_sigint_handler")   # returns True / returns False / raises

        def install():
            trace.append("install")
            if hi == 2:
                raise KeyboardInterrupt()
            return hi == 0
        ns["install_sigint_handler"] = install
        ns["uninstall_sigint_handler"] = lambda: trace.append("uninstall")
        fi = c.choose([True] * 4, "f")   # returns / Z3Exception / other exception / KeyboardInterrupt

        def f(*a, **k):
            trace.append("f")
            if fi == 1:
                raise realz3.Z3Exception("boom")
            if fi == 2:
                raise _Boom()
            if fi == 3:
                raise KeyboardInterrupt()
            return 42
        w = ns["condom"](f)
        out = None
        try:
            out = w(1, k=2)
        except (paths.PathEnd, paths.Undecided):
            raise
        except BaseException as e:
            out = e
        c.n_vcs += 1
        ok = trace.count("enter") == 1 and trace.count("exit") == 1 and trace[0] == "enter" and trace[-1] == "exit"
        if "f" in trace:
            ok = ok and trace.index("enter") < trace.index("f") < trace.index("exit")
        if hi == 0:
            ok = ok and trace.count("uninstall") == 1
        if not ok:
            c.fail("condom/balance", f"enter/exit not balanced around f: {trace}")
        if fi == 0 and hi != 2 and out != 42:
            c.fail("condom/result", f"wrapper returned {out!r}")
        if fi == 1 and hi != 2 and type(out).__name__ != "ClaripyZ3Error":
            c.fail("condom/z3exception", f"Z3Exception surfaced as {type(out).__name__}")
        c.check("condom/path", True)
        return f"install={hi},f={fi}"

    return explore(body, {"budget_s": 120})


def replay_transition(task, failure):
    """Native replay: put the real module into the witness state and execute the real function."""
    import gc
    import claripy.backends.backend_z3 as bz
    w = failure["witness"]
    which = "_enter_z3" if "enter" in task["id"] else "_exit_z3"
    saved = (bz._active_z3_calls, bz._gc_was_enabled, gc.isenabled())
    try:
        bz._active_z3_calls = w.get("cnt", w.get("N", 0))
        bz._gc_was_enabled = bool(w.get("was", False))
        (gc.enable if w.get("gc_enabled") else gc.disable)()
        N = w.get("N", 0)
        g0 = w.get("gc_enabled") if (which == "_enter_z3" and N == 0) else w.get("g0")
        getattr(bz, which)()
        N2 = N + 1 if which == "_enter_z3" else max(N - 1, 0)
        cnt2, was2, gc2 = bz._active_z3_calls, bz._gc_was_enabled, gc.isenabled()
        bad = []
        if cnt2 != N2 and not (which == "_exit_z3" and N == 0):
            bad.append(f"counter {cnt2} != calls in progress {N2}")
        if cnt2 < 0:
            bad.append("counter negative")
        if N2 > 0 and gc2:
            bad.append("collector enabled while calls are in progress")
        if which == "_exit_z3" and N >= 1 and N2 == 0 and gc2 != bool(g0):
            bad.append(f"collector is {'enabled' if gc2 else 'disabled'} after the last call returned; it was {'enabled' if g0 else 'disabled'} before the first")
        if N2 > 0 and bool(was2) != bool(g0):
            bad.append("saved flag lost")
        return {"reproduced": bool(bad), "text": f"state N={N} gc={w.get('gc_enabled')} saved={w.get('was')} -> {which}() -> " + ("; ".join(bad) or "invariant holds")}
    finally:
        bz._active_z3_calls, bz._gc_was_enabled = saved[0], saved[1]
        (gc.enable if saved[2] else gc.disable)()


def replay_threads(task=None, failure=None):
    """native two-thread schedule on the real module: A enters a wrapped call, B enters one, A returns while B is still inside - the
    collector must stay disabled until B has returned too; then the collector state of before must be back"""
    import gc
    import threading
    import claripy.backends.backend_z3 as bz
    ev = {k: threading.Event() for k in ("a_in", "a_go", "b_in", "b_go")}

    def body(me):
        def f():
            ev[me + "_in"].set()
            ev[me + "_go"].wait(10)
            return me
        return bz.condom(f)
    was = gc.isenabled()
    gc.enable()
    obs = {}
    try:
        ta = threading.Thread(target=body("a"))
        tb = threading.Thread(target=body("b"))
        ta.start(); ev["a_in"].wait(10)
        tb.start(); ev["b_in"].wait(10)
        obs["both inside"] = (gc.isenabled(), bz._active_z3_calls)
        ev["a_go"].set(); ta.join(10)
        obs["A returned, B inside"] = (gc.isenabled(), bz._active_z3_calls)
        ev["b_go"].set(); tb.join(10)
        obs["both returned"] = (gc.isenabled(), bz._active_z3_calls)
    finally:
        for e in ev.values():
            e.set()
        (gc.enable if was else gc.disable)()
    bad = obs["both inside"][0] or obs["A returned, B inside"][0] or obs["A returned, B inside"][1] < 1 or not obs["both returned"][0] or obs["both returned"][1] != 0
    text = "two threads in wrapped Z3 calls, (collector enabled, calls in progress) " + "; ".join(f"{k}: {v}" for k, v in obs.items()) \
        + (" - the collector ran / the count was wrong while a Z3 call was in progress" if bad else " - as required")
    if bad:
        return {"reproduced": True, "text": text}
    # second scenario: a solver call that gives up (1 ms budget on a 64-bit factoring question) must give the guard back as well
    import claripy
    gc.enable()
    try:
        x, y = claripy.BVS("kf_gc_x", 64), claripy.BVS("kf_gc_y", 64)
        s = claripy.Solver(timeout=1)
        s.add([x * y == 0xC96F7E5B0BC3B8E5, claripy.UGT(x, 1), claripy.UGT(y, 1), claripy.ULT(x, 1 << 32), claripy.ULT(y, 1 << 32)])
        how = "answered"
        try:
            s.satisfiable()
        except Exception as e:  # noqa
            how = type(e).__name__
        after = (gc.isenabled(), bz._active_z3_calls)
    finally:
        bz._active_z3_calls = 0 if bz._active_z3_calls < 0 else bz._active_z3_calls
        (gc.enable if was else gc.disable)()
    bad2 = (not after[0]) or after[1] != 0
    if bad2:
        bz._active_z3_calls = 0
    return {"reproduced": bool(bad2), "text": text + f"; a satisfiable() with a 1 ms budget ended with {how}: afterwards (collector enabled, calls in progress) = {after}"
            + (" - the guard was not given back" if bad2 else "")}
