"""Mixin-in-isolation proofs for the solver front ends (C11, C16; DESIGN.md 'Common machinery').

`class H(RealMixin, Spec)`: the real mixin (re-loaded from /repo each run) sits on top of `Spec`, which
implements every public method *as its contract* over a finite semantic universe: a constraint is the
set of assignments (out of U) that satisfy it - a U-bit mask; Mod(G) is the AND of the masks.  Spec
answers nondeterministically within the specification.  The mixin's own fields start in an arbitrary
state satisfying its invariant; the real method runs under pyvc; obligations: the answer satisfies the
public specification and the invariant holds again (also on exceptional exits)."""
from __future__ import annotations

import z3

from vf.engine import loader, paths, proxies
from vf.engine.paths import cur, explore, Undecided, PathEnd
from vf.engine.proxies import SymBool, SymInt
from claripy.errors import UnsatError, ClaripyError

U = 8
ALL = z3.BitVecVal((1 << U) - 1, U)
ZERO = z3.BitVecVal(0, U)


class CH:
    """constraint handle: the set of satisfying assignments, and whether it is the literal false node"""
    n = 0

    def __init__(self, mask=None, isF=None, name="c"):
        CH.n += 1
        self.uid = CH.n
        self.mask = mask if mask is not None else z3.BitVec(f"{name}{self.uid}", U)
        self.isF = isF if isF is not None else z3.Bool(f"isF{self.uid}")
        self.annotations = ()
        self.variables = frozenset()
        cur().assume(z3.Implies(self.isF, self.mask == ZERO))
        cur().watch[f"{name}{self.uid}"] = self.mask

    def clear_annotations(self):
        return self

    def hash(self):
        return self.uid

    def __vf_is__(self, o):
        if self is o:
            return True
        if isinstance(o, CH):
            w = cur().ghost.get("FALSE")
            if o is w:
                return cur().branch(self.isF, "is-false-node")
            if self is w:
                return cur().branch(o.isF, "is-false-node")
        return False

    def __bool__(self):
        raise Undecided("truth value of a constraint handle")

    def __repr__(self):
        return f"<c{self.uid}>"


def FALSE():
    g = cur().ghost
    if "FALSE" not in g:
        g["FALSE"] = CH(mask=ZERO, isF=z3.BoolVal(True), name="F")
    return g["FALSE"]


def And_c(*hs):
    m = ALL
    for h in hs:
        m = m & h.mask
    return CH(mask=m, isF=z3.BoolVal(False), name="and")


def is_false_c(h):
    """C10 contract: True only if unsatisfiable; False always allowed."""
    return cur().choose([h.mask == ZERO, True], "is_false") == 0


def conj(hs):
    m = ALL
    for h in hs:
        m = m & h.mask
    return m


class Spec:
    """The contract of 'the rest of the solver stack' below the mixin."""

    def _G(self):
        return conj(self.constraints)

    def _GX(self, extra):
        return self._G() & conj(list(extra))

    def _add(self, constraints, invalidate_cache=True):
        added = list(constraints)
        self.constraints.extend(added)
        self.ever.extend(added)
        return added

    def simplify(self):
        # an equivalent constraint list; may be the single literal false iff unsatisfiable
        c = cur()
        G = self._G()
        if c.choose([G == ZERO, True], "simplify-to-false") == 0:
            self.constraints = [FALSE()]
        else:
            h = CH(mask=G, name="simp")
            self.constraints = [h]
            self.ever.append(h)
        return self.constraints

    def satisfiable(self, extra_constraints=(), exact=None):
        self.calls.append("satisfiable")
        return SymBool(self._GX(extra_constraints) != ZERO)

    def check_satisfiability(self, extra_constraints=(), exact=None):
        self.calls.append("check_satisfiability")
        return "SAT" if cur().branch(self._GX(extra_constraints) != ZERO, "sat?") else "UNSAT"

    def _val(self, name, extra):
        self.calls.append(name)
        if cur().branch(self._GX(extra) == ZERO, "unsat?"):
            raise UnsatError("spec: unsat")
        return ("value",)

    def eval(self, e, n, extra_constraints=(), exact=None):
        return self._val("eval", extra_constraints)

    def batch_eval(self, e, n, extra_constraints=(), exact=None):
        return self._val("batch_eval", extra_constraints)

    def max(self, e, extra_constraints=(), signed=False, exact=None):
        return self._val("max", extra_constraints)

    def min(self, e, extra_constraints=(), signed=False, exact=None):
        return self._val("min", extra_constraints)

    def solution(self, e, v, extra_constraints=(), exact=None):
        self.calls.append("solution")
        c = cur()
        sat = self._GX(extra_constraints) != ZERO
        if c.branch(sat, "sat?"):
            return SymBool(self.vfeasible)
        if c.choose([True, True], "solution-on-unsat") == 0:
            return False
        raise UnsatError("spec: unsat")

    def unsat_core(self, extra_constraints=()):
        self.calls.append("unsat_core")
        if cur().branch(self._GX(extra_constraints) != ZERO, "sat?"):
            return ()
        return tuple(self.constraints)

    def _blank_copy(self, c):
        pass

    def _copy(self, c):
        pass


_cache = {}


def load_satcache():
    if "sat" not in _cache:
        _cache["sat"] = loader.load("claripy/frontend/mixin/sat_cache_mixin.py", "claripy.frontend.mixin.sat_cache_mixin",
                                    overrides={"And": And_c, "false": FALSE, "is_false": is_false_c})
    return _cache["sat"]


def _state(c, H, ncons):
    """an arbitrary state of the stack + mixin satisfying the mixin invariant"""
    s = object.__new__(H)
    s.constraints = [CH() for _ in range(ncons)]
    s.ever = list(s.constraints)
    s.calls = []
    s.vfeasible = z3.Bool("v_feasible")
    c.watch["v_feasible"] = s.vfeasible
    G = conj(s.constraints)
    k = c.choose([True, True, True], "cached_satness")
    s._cached_satness = [None, True, False][k]
    if k == 1:
        c.assume(G != ZERO)
    if k == 2:
        c.assume(G == ZERO)
    s._cached_unsat_core = None
    if ncons >= 1 and c.choose([True, True], "has-core") == 1:
        core = tuple(s.constraints[:min(2, ncons)])
        c.assume(conj(core) == ZERO)
        s._cached_unsat_core = core
    if not c.path_feasible():
        raise PathEnd()
    return s


def _inv(c, s, label):
    G = conj(s.constraints)
    cs = s._cached_satness
    c.n_vcs += 1
    if cs is True:
        c.check(label + "/inv-sat", G != ZERO, "cached satisfiability True but the constraints are unsatisfiable", kind="invariant")
    elif cs is False:
        c.check(label + "/inv-unsat", G == ZERO, "cached satisfiability False but the constraints are satisfiable", kind="invariant")
    elif isinstance(cs, SymBool):
        c.check(label + "/inv-sat", z3.Implies(cs.z, G != ZERO), "cached satisfiability True but the constraints are unsatisfiable", kind="invariant")
        c.check(label + "/inv-unsat", z3.Implies(z3.Not(cs.z), G == ZERO), "cached satisfiability False but the constraints are satisfiable", kind="invariant")
    elif cs is not None:
        c.fail(label + "/inv-type", f"_cached_satness = {cs!r}")
    core = s._cached_unsat_core
    if core is not None:
        ok = isinstance(core, tuple) and all(isinstance(x, CH) for x in core)
        if not ok:
            c.fail(label + "/core-element-type", f"cached unsat core is {type(core).__name__} of "
                   f"{[type(x).__name__ for x in core] if isinstance(core, (tuple, list)) else '?'}; every element must be a constraint", kind="invariant")
            return
        if not all(any(x is y for y in s.ever) for x in core):
            c.fail(label + "/core-membership", "cached unsat core contains something that was never added", kind="invariant")
            return
        c.check(label + "/core-unsat", conj(core) == ZERO, "cached unsat core is satisfiable", kind="invariant")


QUERY = ["satisfiable", "check_satisfiability", "eval", "batch_eval", "min", "max", "solution", "unsat_core", "simplify", "_add"]


def ob_satcache(method, tier="quick"):
    ns = load_satcache()
    H = type("H", (ns["SatCacheMixin"], Spec), {})
    proxies.set_iw(16)

    def body(c):
        CH.n = 0
        ncons = c.choose([True] * 3, "n-constraints")
        s = _state(c, H, ncons)
        nx = c.choose([True, True], "n-extra")
        extra = tuple(CH(name="x") for _ in range(nx))
        GX = conj(s.constraints) & conj(list(extra))
        label = f"SatCacheMixin.{method}"
        try:
            if method == "satisfiable":
                r = s.satisfiable(extra_constraints=extra)
                c.check(label + "/exact", proxies.zbool(r) == (GX != ZERO), "satisfiable() disagrees with the constraint set")
            elif method == "check_satisfiability":
                r = s.check_satisfiability(extra_constraints=extra)
                c.check(label + "/exact", (GX != ZERO) if r == "SAT" else (GX == ZERO) if r == "UNSAT" else False,
                        f"check_satisfiability() = {r!r} disagrees with the constraint set")
            elif method in ("eval", "batch_eval", "min", "max"):
                args = ("e", 2) if method in ("eval", "batch_eval") else ("e",)
                r = getattr(s, method)(*args, extra_constraints=extra)
                c.check(label + "/returns-only-if-sat", GX != ZERO, "a value was returned although no model exists")
            elif method == "solution":
                r = s.solution("e", "v", extra_constraints=extra)
                rz = proxies.zbool(r) if isinstance(r, (bool, SymBool)) else None
                if rz is None:
                    c.fail(label + "/type", f"returned {type(r).__name__}")
                else:
                    c.check(label + "/iff-feasible", rz == z3.And(GX != ZERO, s.vfeasible), "solution() disagrees with feasibility")
            elif method == "unsat_core":
                r = s.unsat_core()
                G = conj(s.constraints)
                els = list(r)
                if not all(isinstance(x, CH) for x in els):
                    c.fail(label + "/element-type", f"unsat_core() returned elements {[type(x).__name__ for x in els]}")
                else:
                    c.check(label + "/empty-iff-sat", (G != ZERO) if not els else (G == ZERO), "unsat_core() emptiness disagrees with satisfiability")
                    if els:
                        c.check(label + "/core-unsat", conj(els) == ZERO, "returned core is satisfiable")
            elif method == "simplify":
                G0 = conj(s.constraints)
                r = s.simplify()
                c.check(label + "/models-unchanged", conj(s.constraints) == G0, "simplify() changed the model set")
            elif method == "_add":
                k = 1 + c.choose([True, True], "n-added")
                new = [CH(name="n") for _ in range(k)]
                s._add(new)
        except UnsatError:
            c.check(label + "/unsat-error-only-if-unsat", GX == ZERO, "UnsatError raised although a model exists")
        except (PathEnd, Undecided):
            raise
        except Exception as e:  # noqa
            c.fail(label + "/raises", f"{type(e).__name__}: {e}", kind="raises")
            return "raised"
        _inv(c, s, label)
        return method

    return explore(body, {"budget_s": 300, "max_depth": 2000, "max_failures": 3, "timeout_ms": 20000})
