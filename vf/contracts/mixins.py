"""Mixin-in-isolation proofs for the solver front ends (C11, C16; DESIGN.md 'Common machinery').

`class H(RealMixin, Spec)`: the real mixin (re-loaded from /repo each run) sits on top of `Spec`, which
implements every public method *as its contract* over a finite semantic universe: a constraint is the
set of assignments (out of U) that satisfy it - a U-bit mask; Mod(G) is the AND of the masks.  Spec
answers nondeterministically within the specification.  The mixin's own fields start in an arbitrary
state satisfying its invariant; the real method runs under pyvc; obligations: the answer satisfies the
public specification and the invariant holds again (also on exceptional exits)."""
from __future__ import annotations

import z3

from vf.engine import loader, paths, proxies
from vf.engine.paths import cur, explore, Undecided, PathEnd
from vf.engine.proxies import SymBool, SymInt
from claripy.errors import UnsatError, ClaripyError, ClaripySolverInterruptError

U = 8
ALL = z3.BitVecVal((1 << U) - 1, U)
ZERO = z3.BitVecVal(0, U)


class CH:
    """constraint handle: the set of satisfying assignments, and whether it is the literal false node"""
    n = 0

    def __init__(self, mask=None, isF=None, name="c"):
        CH.n += 1
        self.uid = CH.n
        self.mask = mask if mask is not None else z3.BitVec(f"{name}{self.uid}", U)
        self.isF = isF if isF is not None else z3.Bool(f"isF{self.uid}")
        self.annotations = ()
        self.variables = frozenset()
        self._plain = None
        cur().assume(z3.Implies(self.isF, self.mask == ZERO))
        cur().watch[f"{name}{self.uid}"] = self.mask

    def clear_annotations(self):
        # an annotated constraint and its plain twin are different expressions (different identity and hash) with the same
        # models; whether a handle is annotated is arbitrary
        if self._plain is None:
            if cur().choose([True, True], f"annotated{self.uid}") == 0:
                self._plain = self
            else:
                p = CH(mask=self.mask, isF=self.isF, name="plain")
                p._plain = p
                self._plain = p
        return self._plain

    def hash(self):
        return self.uid

    def __vf_is__(self, o):
        if self is o:
            return True
        if isinstance(o, CH):
            w = cur().ghost.get("FALSE")
            if o is w:
                return cur().branch(self.isF, "is-false-node")
            if self is w:
                return cur().branch(o.isF, "is-false-node")
        return False

    def __bool__(self):
        raise Undecided("truth value of a constraint handle")

    def __repr__(self):
        return f"<c{self.uid}>"


def FALSE():
    g = cur().ghost
    if "FALSE" not in g:
        g["FALSE"] = CH(mask=ZERO, isF=z3.BoolVal(True), name="F")
    return g["FALSE"]


def And_c(*hs):
    m = ALL
    for h in hs:
        m = m & h.mask
    return CH(mask=m, isF=z3.BoolVal(False), name="and")


def is_false_c(h):
    """C10 contract: True only if unsatisfiable; False always allowed."""
    return cur().choose([h.mask == ZERO, True], "is_false") == 0


def conj(hs):
    m = ALL
    for h in hs:
        m = m & h.mask
    return m


class Spec:
    """The contract of 'the rest of the solver stack' below the mixin."""

    def _G(self):
        return conj(self.constraints)

    def _GX(self, extra):
        return self._G() & conj(list(extra))

    def _add(self, constraints, invalidate_cache=True):
        added = list(constraints)
        self.constraints.extend(added)
        self.ever.extend(added)
        return added

    def simplify(self):
        # an equivalent constraint list; may be the single literal false iff unsatisfiable
        c = cur()
        G = self._G()
        if c.choose([G == ZERO, True], "simplify-to-false") == 0:
            self.constraints = [FALSE()]
        else:
            h = CH(mask=G, name="simp")
            self.constraints = [h]
            self.ever.append(h)
        return self.constraints

    def satisfiable(self, extra_constraints=(), exact=None):
        self.calls.append("satisfiable")
        return SymBool(self._GX(extra_constraints) != ZERO)

    def check_satisfiability(self, extra_constraints=(), exact=None):
        self.calls.append("check_satisfiability")
        return "SAT" if cur().branch(self._GX(extra_constraints) != ZERO, "sat?") else "UNSAT"

    def _val(self, name, extra):
        self.calls.append(name)
        if cur().branch(self._GX(extra) == ZERO, "unsat?"):
            raise UnsatError("spec: unsat")
        return ("value",)

    def eval(self, e, n, extra_constraints=(), exact=None):
        return self._val("eval", extra_constraints)

    def batch_eval(self, e, n, extra_constraints=(), exact=None):
        return self._val("batch_eval", extra_constraints)

    def max(self, e, extra_constraints=(), signed=False, exact=None):
        return self._val("max", extra_constraints)

    def min(self, e, extra_constraints=(), signed=False, exact=None):
        return self._val("min", extra_constraints)

    def solution(self, e, v, extra_constraints=(), exact=None):
        self.calls.append("solution")
        c = cur()
        sat = self._GX(extra_constraints) != ZERO
        if c.branch(sat, "sat?"):
            return SymBool(self.vfeasible)
        if c.choose([True, True], "solution-on-unsat") == 0:
            return False
        raise UnsatError("spec: unsat")

    def unsat_core(self, extra_constraints=()):
        self.calls.append("unsat_core")
        if cur().branch(self._GX(extra_constraints) != ZERO, "sat?"):
            return ()
        return tuple(self.constraints)

    def _blank_copy(self, c):
        pass

    def _copy(self, c):
        pass


_cache = {}


def load_satcache():
    if "sat" not in _cache:
        _cache["sat"] = loader.load("claripy/frontend/mixin/sat_cache_mixin.py", "claripy.frontend.mixin.sat_cache_mixin",
                                    overrides={"And": And_c, "false": FALSE, "is_false": is_false_c})
    return _cache["sat"]


def _state(c, H, ncons):
    """an arbitrary state of the stack + mixin satisfying the mixin invariant"""
    s = object.__new__(H)
    s.constraints = [CH() for _ in range(ncons)]
    s.ever = list(s.constraints)
    s.calls = []
    s.vfeasible = z3.Bool("v_feasible")
    c.watch["v_feasible"] = s.vfeasible
    G = conj(s.constraints)
    k = c.choose([True, True, True], "cached_satness")
    s._cached_satness = [None, True, False][k]
    if k == 1:
        c.assume(G != ZERO)
    if k == 2:
        c.assume(G == ZERO)
    s._cached_unsat_core = None
    if ncons >= 1 and c.choose([True, True], "has-core") == 1:
        core = tuple(s.constraints[:min(2, ncons)])
        c.assume(conj(core) == ZERO)
        s._cached_unsat_core = core
    if not c.path_feasible():
        raise PathEnd()
    return s


def _inv(c, s, label):
    G = conj(s.constraints)
    cs = s._cached_satness
    c.n_vcs += 1
    if cs is True:
        c.check(label + "/inv-sat", G != ZERO, "cached satisfiability True but the constraints are unsatisfiable", kind="invariant")
    elif cs is False:
        c.check(label + "/inv-unsat", G == ZERO, "cached satisfiability False but the constraints are satisfiable", kind="invariant")
    elif isinstance(cs, SymBool):
        c.check(label + "/inv-sat", z3.Implies(cs.z, G != ZERO), "cached satisfiability True but the constraints are unsatisfiable", kind="invariant")
        c.check(label + "/inv-unsat", z3.Implies(z3.Not(cs.z), G == ZERO), "cached satisfiability False but the constraints are satisfiable", kind="invariant")
    elif cs is not None:
        c.fail(label + "/inv-type", f"_cached_satness = {cs!r}")
    core = s._cached_unsat_core
    if core is not None:
        ok = isinstance(core, tuple) and all(isinstance(x, CH) for x in core)
        if not ok:
            c.fail(label + "/core-element-type", f"cached unsat core is {type(core).__name__} of "
                   f"{[type(x).__name__ for x in core] if isinstance(core, (tuple, list)) else '?'}; every element must be a constraint", kind="invariant")
            return
        if not all(any(x is y for y in s.ever) for x in core):
            c.fail(label + "/core-membership", "cached unsat core contains something that was never added", kind="invariant")
            return
        c.check(label + "/core-unsat", conj(core) == ZERO, "cached unsat core is satisfiable", kind="invariant")


QUERY = ["satisfiable", "check_satisfiability", "eval", "batch_eval", "min", "max", "solution", "unsat_core", "simplify", "_add"]


def ob_satcache(method, tier="quick"):
    ns = load_satcache()
    H = type("H", (ns["SatCacheMixin"], Spec), {})
    proxies.set_iw(16)

    def body(c):
        CH.n = 0
        ncons = c.choose([True] * 3, "n-constraints")
        s = _state(c, H, ncons)
        nx = c.choose([True, True], "n-extra")
        extra = tuple(CH(name="x") for _ in range(nx))
        # which variables a constraint mentions says nothing about whether it is satisfiable: the solver's constraints are over v, an extra
        # constraint may be over v or over a variable the solver has never seen
        s.variables = {"v"}
        for h in s.constraints:
            h.variables = frozenset({"v"})
        for h in extra:
            h.variables = frozenset({"v"}) if c.choose([True, True], f"extra{h.uid}-over-the-solvers-variable") == 0 else frozenset({"w"})
        GX = conj(s.constraints) & conj(list(extra))
        label = f"SatCacheMixin.{method}"
        try:
            if method == "satisfiable":
                r = s.satisfiable(extra_constraints=extra)
                c.check(label + "/exact", proxies.zbool(r) == (GX != ZERO), "satisfiable() disagrees with the constraint set")
            elif method == "check_satisfiability":
                r = s.check_satisfiability(extra_constraints=extra)
                c.check(label + "/exact", (GX != ZERO) if r == "SAT" else (GX == ZERO) if r == "UNSAT" else False,
                        f"check_satisfiability() = {r!r} disagrees with the constraint set")
            elif method in ("eval", "batch_eval", "min", "max"):
                args = ("e", 2) if method in ("eval", "batch_eval") else ("e",)
                r = getattr(s, method)(*args, extra_constraints=extra)
                c.check(label + "/returns-only-if-sat", GX != ZERO, "a value was returned although no model exists")
            elif method == "solution":
                r = s.solution("e", "v", extra_constraints=extra)
                rz = proxies.zbool(r) if isinstance(r, (bool, SymBool)) else None
                if rz is None:
                    c.fail(label + "/type", f"returned {type(r).__name__}")
                else:
                    c.check(label + "/iff-feasible", rz == z3.And(GX != ZERO, s.vfeasible), "solution() disagrees with feasibility")
            elif method == "unsat_core":
                r = s.unsat_core(extra_constraints=extra)
                els = list(r)
                if not all(isinstance(x, CH) for x in els):
                    c.fail(label + "/element-type", f"unsat_core() returned elements {[type(x).__name__ for x in els]}")
                else:
                    # an empty core: satisfiable, or the extra constraints are unsatisfiable by themselves (the core ranges over the constraints)
                    c.check(label + "/empty-iff-sat", z3.Or(GX != ZERO, conj(list(extra)) == ZERO) if not els else (GX == ZERO),
                            "unsat_core() emptiness disagrees with satisfiability (under the extra constraints)")
                    if els:
                        c.check(label + "/core-unsat", (conj(els) & conj(list(extra))) == ZERO, "returned core is satisfiable together with the extra constraints")
                # a second, plain call must answer for the constraints alone (a core found under extra constraints is no core without them)
                r2 = list(s.unsat_core())
                G = conj(s.constraints)
                if all(isinstance(x, CH) for x in r2):
                    c.check(label + "/second-call-empty-iff-sat", (G != ZERO) if not r2 else (G == ZERO), "a later unsat_core() without extra constraints disagrees with satisfiability")
                    if r2:
                        c.check(label + "/second-call-core-unsat", conj(r2) == ZERO, "a later unsat_core() without extra constraints returned a satisfiable core")
            elif method == "simplify":
                G0 = conj(s.constraints)
                r = s.simplify()
                c.check(label + "/models-unchanged", conj(s.constraints) == G0, "simplify() changed the model set")
            elif method == "_add":
                k = 1 + c.choose([True, True], "n-added")
                new = [CH(name="n") for _ in range(k)]
                s._add(new)
        except UnsatError:
            c.check(label + "/unsat-error-only-if-unsat", GX == ZERO, "UnsatError raised although a model exists")
        except (PathEnd, Undecided):
            raise
        except Exception as e:  # noqa
            c.fail(label + "/raises", f"{type(e).__name__}: {e}", kind="raises")
            return "raised"
        _inv(c, s, label)
        return method

    return explore(body, {"budget_s": 300, "max_depth": 2000, "max_failures": 3, "timeout_ms": 20000})


# ================================================================================================
# ModelCacheMixin in isolation (C11): finite universe of UM assignments; an expression is a value table.

UM = 4          # assignments
WV = 2          # bits of the query expression


class MCtx:
    """per-path semantic universe"""
    def __init__(self, c):
        self.c = c
        self.G = z3.BitVec("G", UM)          # assignments satisfying the constraints
        c.watch["G"] = self.G


def _bit(mask, i):
    return z3.Extract(i, i, mask) == 1


class MH(CH):
    """constraint handle over the UM-assignment universe"""
    def __init__(self, mask=None, name="c"):
        CH.n += 1
        self.uid = CH.n
        self.mask = mask if mask is not None else z3.BitVec(f"{name}{self.uid}", UM)
        self.isF = z3.BoolVal(False)
        self.annotations = ()
        self.variables = frozenset({"i"})
        self.depth = 3
        self.op = "opaque"
        cur().watch[f"{name}{self.uid}"] = self.mask


class EH:
    """expression handle: value of the expression under each assignment"""
    def __init__(self, name="e"):
        self.name = name
        self.table = [z3.BitVec(f"{name}_at{i}", WV) for i in range(UM)]
        for i, t in enumerate(self.table):
            cur().watch[f"{name}_at{i}"] = t
        self.variables = frozenset({"i"})
        self.uid = 1000 + hash(name) % 1000

    def hash(self):
        return self.uid

    def __len__(self):
        return WV

    def size(self):
        return WV

    def val(self, i):
        return SymInt(z3.ZeroExt(proxies.get_iw() - WV, self.table[i]))

    def __ne__(self, v):
        vz = z3.Extract(WV - 1, 0, proxies._bv(v))
        bits = [z3.If(self.table[i] != vz, z3.BitVecVal(1, 1), z3.BitVecVal(0, 1)) for i in range(UM)]
        return MH(mask=z3.Concat(*reversed(bits)), name="ne")

    def __eq__(self, v):
        vz = z3.Extract(WV - 1, 0, proxies._bv(v))
        bits = [z3.If(self.table[i] == vz, z3.BitVecVal(1, 1), z3.BitVecVal(0, 1)) for i in range(UM)]
        return MH(mask=z3.Concat(*reversed(bits)), name="eq")

    __hash__ = None


def mand(*hs):
    m = z3.BitVecVal((1 << UM) - 1, UM)
    for h in hs:
        m = m & h.mask
    return MH(mask=m, name="and")


def mor(*hs):
    m = z3.BitVecVal(0, UM)
    for h in hs:
        m = m | h.mask
    return MH(mask=m, name="or")


class MC:
    """contract of ModelCache: a model is one assignment of the universe; eval_ast(e) is e's value under it"""
    def __init__(self, model):
        self.model = model
        self.idx = model["i"]
        self.replacements = {}
        self.constraint_only_replacements = {}

    def __hash__(self):
        return hash(self.idx)

    def __eq__(self, o):
        return isinstance(o, MC) and o.idx == self.idx

    def eval_constraints(self, constraints):
        ok = z3.And(*[_bit(h.mask, self.idx) for h in constraints]) if constraints else z3.BoolVal(True)
        return bool(SymBool(ok))

    def eval_list(self, asts, allow_unconstrained=True):
        return tuple(a.val(self.idx) for a in asts)

    def eval_ast(self, a, allow_unconstrained=True):
        return a.val(self.idx)

    def filter(self, variables):
        return self


def _skey(t, signed):
    return t if not signed else (t ^ z3.BitVecVal(1 << (WV - 1), WV))     # order-preserving map signed -> unsigned


FAULTS = {"on": False}


def _maybe_give_up(where):
    """C17: with FAULTS on, the stack below may give up (solver timeout / interrupt) at every query instead of answering"""
    if FAULTS["on"]:
        c = cur()
        c.ghost["stack_calls"] = c.ghost.get("stack_calls", 0) + 1
        if c.choose([True, True], f"stack-gives-up@{where}#{c.ghost['stack_calls']}") == 1:
            c.ghost["stack_raised"] = True
            raise ClaripySolverInterruptError("timeout")


class MSpec:
    """contract of the stack below ModelCacheMixin (FullFrontend over Z3), over the finite universe"""

    def _GXm(self, extra):
        m = self.U.G
        for h in extra:
            m = m & h.mask
        return m

    def _add(self, constraints, invalidate_cache=True):
        added = list(constraints)
        self.constraints.extend(added)
        for h in added:
            self.U.G = self.U.G & h.mask
        return added

    def simplify(self):
        return self.constraints

    def satisfiable(self, extra_constraints=(), exact=None):
        _maybe_give_up("satisfiable")
        m = self._GXm(extra_constraints)
        c = cur()
        if c.branch(m != 0, "sat?"):
            self._report_some_model(m)
            return True
        return False

    def _pick(self, m, cond=None, label="model"):
        """a concrete assignment index in mask m (satisfying cond), by fork"""
        c = cur()
        alts = [z3.And(_bit(m, i), cond(i) if cond else z3.BoolVal(True)) for i in range(UM)]
        return c.choose(alts, label)

    def _report_some_model(self, m, cond=None):
        # the backend invokes the model callback with the model it found
        i = self._pick(m, cond)
        self._model_hook({"i": i})
        return i

    def _extremum(self, e, extra, signed, is_max):
        _maybe_give_up("min/max")
        c = cur()
        m = self._GXm(extra)
        if c.branch(m == 0, "unsat?"):
            raise UnsatError("spec: unsat")
        # the true optimum
        def is_opt(i):
            cmp = (lambda a, b: z3.UGE(a, b)) if is_max else (lambda a, b: z3.ULE(a, b))
            return z3.And(*[z3.Implies(_bit(m, j), cmp(_skey(e.table[i], signed), _skey(e.table[j], signed))) for j in range(UM)])
        i = self._pick(m, is_opt, "optimum")
        # contract of BackendZ3._extrema: the callback receives a model realising the optimum, unless the
        # optimum is the initial bound of the search, in which case no model may be reported at all
        bound = (0 if not is_max else (1 << WV) - 1) if not signed else ((1 << (WV - 1)) if not is_max else (1 << (WV - 1)) - 1)
        atbound = e.table[i] == (bound if not is_max else bound)
        init = (0 if not signed else (1 << (WV - 1))) if not is_max else None
        if is_max:
            init_val = 0 if not signed else (1 << (WV - 1))      # search for max starts with lo = smallest value
        else:
            init_val = (1 << WV) - 1 if not signed else (1 << (WV - 1)) - 1   # search for min starts with hi = largest value
        out = SymInt(z3.SignExt(proxies.get_iw() - WV, e.table[i])) if signed else e.val(i)   # backend: signed int for signed queries
        if c.branch(e.table[i] == init_val, "optimum-is-initial-bound") and c.choose([True, True], "callback?") == 1:
            return out
        self._model_hook({"i": i})
        return out

    def min(self, e, extra_constraints=(), signed=False, exact=None):
        return self._extremum(e, extra_constraints, signed, False)

    def max(self, e, extra_constraints=(), signed=False, exact=None):
        return self._extremum(e, extra_constraints, signed, True)

    def batch_eval(self, asts, n, extra_constraints=(), exact=None):
        _maybe_give_up("batch_eval")
        c = cur()
        m = self._GXm(extra_constraints)
        if c.branch(m == 0, "unsat?"):
            raise UnsatError("spec: unsat")
        n = proxies.concretize(n) if not isinstance(n, int) else n
        # a set S of assignments: all feasible, value TUPLES pairwise distinct, |S| <= n, complete when |S| < n
        same = lambda i, j: z3.And(*[a.table[i] == a.table[j] for a in asts])
        subsets = [s for s in range(1, 1 << UM) if bin(s).count("1") <= n]
        alts = []
        for s in subsets:
            idx = [i for i in range(UM) if s >> i & 1]
            feas = z3.And(*[_bit(m, i) for i in idx])
            dist = z3.And(*[z3.Not(same(i, j)) for ii, i in enumerate(idx) for j in idx[ii + 1:]]) if len(idx) > 1 else z3.BoolVal(True)
            if len(idx) < n:
                comp = z3.And(*[z3.Implies(_bit(m, j), z3.Or(*[same(j, i) for i in idx])) for j in range(UM)])
            else:
                comp = z3.BoolVal(True)
            alts.append(z3.And(feas, dist, comp))
        k = c.choose(alts, "batch-result")
        idx = [i for i in range(UM) if subsets[k] >> i & 1]
        for i in idx:
            self._model_hook({"i": i})
        return [tuple(a.val(i) for a in asts) for i in idx]

    def eval(self, e, n, extra_constraints=(), exact=None):
        return tuple(r[0] for r in self.batch_eval([e], n, extra_constraints=extra_constraints))

    def solution(self, e, v, extra_constraints=(), exact=None):
        _maybe_give_up("solution")
        c = cur()
        m = self._GXm(extra_constraints)
        vz = z3.Extract(WV - 1, 0, proxies._bv(v))
        feas = z3.Or(*[z3.And(_bit(m, i), e.table[i] == vz) for i in range(UM)])
        if c.branch(feas, "feasible?"):
            self._report_some_model(m, lambda i: e.table[i] == vz)
            return True
        return False

    def _blank_copy(self, c):
        pass

    def _copy(self, c):
        pass


def load_modelcache():
    if "mc" not in _cache:
        claripy_ns = type("NS", (), {"And": staticmethod(mand), "Or": staticmethod(mor)})
        _cache["mc"] = loader.load("claripy/frontend/mixin/model_cache_mixin.py", "claripy.frontend.mixin.model_cache_mixin",
                                   overrides={"claripy": claripy_ns, "false": (lambda: _MFALSE), "ModelCache": MC,
                                              "Base": EH, "backends": _MBackends})
    return _cache["mc"]


class _MConcrete:
    """contract of backends.concrete.eval(e, 1) on a variable-free expression: its value"""
    @staticmethod
    def eval(e, n):
        if getattr(e, "conc", None) is None:
            from claripy.errors import BackendError
            raise BackendError("spec: not a constant")
        return [e.conc]


class _MBackends:
    concrete = _MConcrete


class VarE(EH):
    """the expression `i` itself: the one variable of the universe (its value under assignment j is j)"""
    def __init__(self):
        self.name = "var_i"
        self.table = [z3.BitVecVal(j, WV) for j in range(UM)]
        self.variables = frozenset({"i"})
        self.uid = 777
        self.symbolic = True
        self.op = "BVS"
        self.depth = 1


class ConstE:
    def __init__(self, k):
        self.conc = k
        self.symbolic = False
        self.op = "BVV"
        self.variables = frozenset()
        self.depth = 1


class TrivEq(MH):
    """the constraint `i == k` as the real code sees it (depth 2, op __eq__, a BVS against a constant)"""
    def __init__(self, k, swapped=False, op="__eq__"):
        var, const = VarE(), ConstE(k)
        sem = (1 << k) if op == "__eq__" else (((1 << UM) - 1) & ~(1 << k))
        super().__init__(mask=z3.BitVecVal(sem, UM), name="triv")
        self.args = (const, var) if swapped else (var, const)
        self.op = op
        self.depth = 2
        self.var = var


def ob_modelcache_trivial(tier="quick"):
    """ModelCacheMixin._add with _trivial_model_optimization under contract: the constraint added to an EMPTY solver has the shape
    `variable == constant` (also: constant == variable, variable != constant - the shapes the optimisation must tell apart); post: the
    cache invariant (cached models satisfy the constraints; every exhausted mark is true of the cached models) and the model set."""
    global UM, WV
    UM, WV = 4, 2
    FAULTS["on"] = False
    ns = load_modelcache()
    H = type("HM", (ns["ModelCacheMixin"], MSpec), {})
    proxies.set_iw(12)

    def body(c):
        CH.n = 0
        s = object.__new__(H)
        s.U = MCtx(c)
        c.assume(s.U.G == (1 << UM) - 1)          # no constraints yet
        s.constraints = []
        s.variables = set() if c.choose([True, True], "variable-known") == 0 else {"i"}
        s._models = set()
        s._exhausted = False
        for f in FLAGS:
            setattr(s, f, {})
        k = c.choose([True] * UM, "constant")
        shape = c.choose([True, True, True], "shape")
        con = TrivEq(k, swapped=(shape == 1), op="__ne__" if shape == 2 else "__eq__")
        e = con.var
        second = c.choose([True, True], "with-a-second-constraint") == 1
        new = [con] + ([MH(name="n")] if second else [])
        inval = c.choose([True, True], "invalidate_cache") == 0
        label = "ModelCacheMixin._add[variable==constant]"
        G0 = s.U.G
        try:
            s._add(new, invalidate_cache=inval)
        except (PathEnd, Undecided):
            raise
        except Exception as ex:  # noqa
            import traceback
            c.fail(label + "/raises", f"{type(ex).__name__}: {ex} " + traceback.format_exc()[-300:], kind="raises")
            return "raised"
        want = G0
        for h in new:
            want = want & h.mask
        c.check(label + "/models-are-the-intersection", s.U.G == want, "after _add the model set is not the old one intersected with the added constraints")
        _mc_inv(c, s, e, label)
        return f"shape{shape}:{'cached' if s._models else 'not-cached'}"

    return explore(body, {"budget_s": 300, "max_depth": 3000, "max_failures": 3, "timeout_ms": 20000})


_MFALSE = object()
FLAGS = ["_eval_exhausted", "_max_exhausted", "_min_exhausted", "_max_signed_exhausted", "_min_signed_exhausted"]


def _values_exist(U, e, models):
    """every feasible value of e has a cached model"""
    return z3.And(*[z3.Implies(_bit(U.G, j), z3.Or(*[e.table[j] == e.table[m.idx] for m in models]) if models else z3.BoolVal(False))
                    for j in range(UM)])


def _opt_cached(U, e, models, signed, is_max):
    """exhaustion-flag invariant: the constraints are unsatisfiable, or some cached model realises the
    optimum over Mod(G) (then the cached answer of a later query is the true optimum)"""
    cmp = z3.UGE if is_max else z3.ULE
    return z3.Or(U.G == 0, *[z3.And(*[z3.Implies(_bit(U.G, j), cmp(_skey(e.table[m.idx], signed), _skey(e.table[j], signed))) for j in range(UM)])
                             for m in models])


def _mc_inv(c, s, e, label, assume=False, only_eval=False):
    U = s.U
    models = list(s._models)
    conds = []
    for m in models:
        conds.append((f"{label}/inv-models-satisfy-constraints", _bit(U.G, m.idx)))
    if dict.__contains__(s._eval_exhausted, e.hash()):
        conds.append((f"{label}/inv-eval-exhausted", _values_exist(U, e, models)))
    for flag, sg, mx in () if only_eval else (("_max_exhausted", False, True), ("_min_exhausted", False, False),
                         ("_max_signed_exhausted", True, True), ("_min_signed_exhausted", True, False)):
        if dict.__contains__(getattr(s, flag), e.hash()):
            conds.append((f"{label}/inv{flag}", _opt_cached(U, e, models, sg, mx)))
    for lab, cond in conds:
        if assume:
            c.assume(cond)
        else:
            c.check(lab, cond, "cache invariant broken: a later query would be answered wrongly from the cache", kind="invariant")


class FlagDict(dict):
    """exhaustion set that must not be *read* by the method under verification (it is irrelevant to it);
    a read aborts the obligation as undecided instead of silently narrowing the explored states"""
    def __contains__(self, k):
        raise Undecided("an exhaustion set assumed irrelevant to this method was read")

    def __getitem__(self, k):
        raise Undecided("an exhaustion set assumed irrelevant to this method was read")


RELEVANT = {"batch_eval": ["_eval_exhausted"],
            "min": ["_eval_exhausted", "_min_exhausted", "_min_signed_exhausted"],
            "max": ["_eval_exhausted", "_max_exhausted", "_max_signed_exhausted"],
            "eval": ["_eval_exhausted"], "solution": [], "satisfiable": [], "_add": FLAGS}


def _mc_state(c, H, method):
    s = object.__new__(H)
    s.U = MCtx(c)
    s.constraints = []
    s.variables = {"i"}
    k = c.choose([True] * (1 << UM), "cached-models")
    s._models = {MC({"i": i}) for i in range(UM) if k >> i & 1}
    s._exhausted = False
    e = EH("e")
    rel = RELEVANT[method]
    fl = c.choose([True] * (1 << len(rel)), "exhausted-flags")
    for f in FLAGS:
        if f in rel:
            setattr(s, f, {e.hash(): e} if fl >> rel.index(f) & 1 else {})
        else:
            # irrelevant to this method: present (worst case for the invariant that must be preserved), never read
            d = FlagDict()
            dict.__setitem__(d, e.hash(), e)
            setattr(s, f, d)
    _mc_inv(c, s, e, "init", assume=True)
    if method == "batch_eval":
        # a second expression with its own exhaustion flag (what is known about each expression separately says nothing about
        # the COMBINATIONS of their values that the cached models realise)
        e2 = EH("f")
        s.e2 = e2
        if c.choose([True, True], "second-expression-exhausted") == 1:
            s._eval_exhausted[e2.hash()] = e2
        _mc_inv(c, s, e2, "init", assume=True, only_eval=True)
    if not c.path_feasible():
        raise PathEnd()
    return s, e


MC_METHODS = ["min", "max", "eval", "batch_eval", "solution", "satisfiable", "_add"]


def ob_modelcache(method, tier="quick", faults=False):
    """faults=True (C17): the stack below may raise ClaripySolverInterruptError at every call.  The mixin must then either
    propagate the error or still return a correct answer (the normal postconditions), and the cache invariant must hold on
    the exceptional exit too - a later query must not be answered from a cache that the aborted call left half-updated."""
    global UM, WV
    UM = 3 if (tier == "quick" or faults) else 4       # size of the semantic universe (assignments)
    WV = 1 if method == "batch_eval" else 2            # value width (two expressions: 1-bit values keep the tuple sets small)
    FAULTS["on"] = bool(faults)
    ns = load_modelcache()
    H = type("HM", (ns["ModelCacheMixin"], MSpec), {})
    proxies.set_iw(12)

    def body(c):
        CH.n = 0
        s, e = _mc_state(c, H, method)
        U = s.U
        nx = c.choose([True, True], "n-extra")
        extra = tuple(MH(name="x") for _ in range(nx))
        GX = U.G
        for h in extra:
            GX = GX & h.mask
        label = f"ModelCacheMixin.{method}"
        feas_vals = lambda vz: z3.Or(*[z3.And(_bit(GX, i), e.table[i] == vz) for i in range(UM)])
        try:
            if method in ("min", "max"):
                signed = c.choose([True, True], "signed") == 1
                r = getattr(s, method)(e, extra_constraints=extra, signed=signed)
                rz = z3.Extract(WV - 1, 0, proxies._bv(r))
                c.watch["result"] = rz
                cmp = z3.UGE if method == "max" else z3.ULE
                c.check(label + "/feasible", feas_vals(rz), f"{method}() returned a value the expression does not take")
                c.check(label + "/optimum", z3.And(*[z3.Implies(_bit(GX, j), cmp(_skey(rz, signed), _skey(e.table[j], signed))) for j in range(UM)]),
                        f"{method}() is not the optimum in the requested signedness")
                rr = proxies._bv(r)
                c.check(label + "/representation", z3.And(rr >= -(1 << (WV - 1)), rr < (1 << (WV - 1))) if signed else z3.And(rr >= 0, rr < (1 << WV)),
                        "signed queries answer with the signed integer, unsigned ones with the bit pattern (independently of the cache)")
            elif method == "eval":
                n = 1 + c.choose([True, True, True], "n")
                r = s.eval(e, n, extra_constraints=extra)
                vals = [z3.Extract(WV - 1, 0, proxies._bv(x)) for x in r]
                for x in vals:
                    c.check(label + "/feasible", feas_vals(x), "eval returned an infeasible value")
                if len(vals) > 1:
                    c.check(label + "/distinct", z3.Distinct(*vals), "eval returned duplicates")
                if len(vals) < n:
                    c.check(label + "/complete", z3.And(*[z3.Implies(_bit(GX, j), z3.Or(*[e.table[j] == x for x in vals]) if vals else z3.BoolVal(False))
                                                          for j in range(UM)]), "eval returned fewer values than requested although more exist")
                if len(vals) > n:
                    c.fail(label + "/count", "more values than requested")
            elif method == "batch_eval":
                e2 = s.e2
                n = 1 + c.choose([True, True, True], "n")
                r = s.batch_eval([e, e2], n, extra_constraints=extra)
                tups = [(z3.Extract(WV - 1, 0, proxies._bv(t[0])), z3.Extract(WV - 1, 0, proxies._bv(t[1]))) for t in r]
                for (a, b) in tups:
                    c.check(label + "/feasible", z3.Or(*[z3.And(_bit(GX, i), e.table[i] == a, e2.table[i] == b) for i in range(UM)]), "batch_eval returned an infeasible tuple")
                for ii in range(len(tups)):
                    for jj in range(ii + 1, len(tups)):
                        c.check(label + "/distinct", z3.Or(tups[ii][0] != tups[jj][0], tups[ii][1] != tups[jj][1]), "batch_eval returned the same tuple twice")
                if len(tups) < n:
                    c.check(label + "/complete", z3.And(*[z3.Implies(_bit(GX, j), z3.Or(*[z3.And(e.table[j] == a, e2.table[j] == b) for (a, b) in tups]) if tups else z3.BoolVal(False))
                                                          for j in range(UM)]), "batch_eval returned fewer tuples than requested although more exist")
                if len(tups) > n:
                    c.fail(label + "/count", "more tuples than requested")
            elif method == "solution":
                v = SymInt.fresh("v", 0, (1 << WV) - 1)
                r = s.solution(e, v, extra_constraints=extra)
                rz = proxies.zbool(r)
                c.check(label + "/iff-feasible", rz == feas_vals(z3.Extract(WV - 1, 0, v.z)), "solution() disagrees with feasibility")
            elif method == "satisfiable":
                r = s.satisfiable(extra_constraints=extra)
                c.check(label + "/exact", proxies.zbool(r) == (GX != 0), "satisfiable() disagrees with the constraint set")
            elif method == "_add":
                new = [MH(name="n")]
                inval = c.choose([True, True], "invalidate_cache") == 0
                s._add(new, invalidate_cache=inval) if inval else s._add(new)
        except UnsatError:
            c.check(label + "/unsat-error-only-if-unsat", GX == 0, "UnsatError raised although a model exists")
        except ClaripySolverInterruptError:
            c.n_vcs += 1
            if not c.ghost.get("stack_raised"):
                c.fail(label + "/interrupt-only-if-the-backend-gave-up", "ClaripySolverInterruptError raised although no backend call gave up")
                return "raised"
            _mc_inv(c, s, e, label + "[after-interrupt]")
            return method + ":interrupted"
        except (PathEnd, Undecided):
            raise
        except Exception as ex:  # noqa
            import traceback
            c.fail(label + "/raises", f"{type(ex).__name__}: {ex} " + traceback.format_exc()[-300:], kind="raises")
            return "raised"
        _mc_inv(c, s, e, label)
        if method == "batch_eval":
            _mc_inv(c, s, s.e2, label + "[second-expression]", only_eval=True)
        return method + (":answered-despite-fault" if c.ghost.get("stack_raised") else "")

    return explore(body, {"budget_s": 900, "max_depth": 4000, "max_failures": 3, "timeout_ms": 20000, "max_paths": 2000000})


def ob_modelcache_copy(tier="quick"):
    """ModelCacheMixin._copy / _blank_copy: the copy holds the same cached models and exhausted marks as the original in containers OF ITS OWN
    (a model the copy finds later must not appear in the original's cache, nor the other way round); a blank copy holds none."""
    global UM, WV
    UM, WV = 3, 2
    FAULTS["on"] = False
    ns = load_modelcache()
    H = type("HM", (ns["ModelCacheMixin"], MSpec), {})
    proxies.set_iw(12)
    import weakref

    def body(c):
        CH.n = 0
        s, e = _mc_state(c, H, "_add")
        for f in FLAGS:                      # real containers (the state generator uses guarded dicts for the marks it does not need)
            setattr(s, f, weakref.WeakValueDictionary(dict(getattr(s, f))) if False else dict(dict.items(getattr(s, f))))
        blank = c.choose([True, True], "blank") == 1
        o = object.__new__(H)
        o.U = s.U
        label = "ModelCacheMixin." + ("_blank_copy" if blank else "_copy")
        try:
            (s._blank_copy if blank else s._copy)(o)
        except (PathEnd, Undecided):
            raise
        except Exception as ex:  # noqa
            c.fail(label + "/raises", f"{type(ex).__name__}: {ex}", kind="raises")
            return "raised"
        c.n_vcs += 1
        for attr in ["_models"] + FLAGS:
            mine, theirs = getattr(s, attr), getattr(o, attr, None)
            if theirs is None:
                c.fail(label + "/attribute", f"the copy has no {attr}")
                continue
            if theirs is mine:
                c.fail(label + "/own-containers", f"the copy shares {attr} with the original: what one of them caches later shows up in the other")
                continue
            same = (set(theirs) == set(mine)) if attr == "_models" else (set(theirs.keys()) == set(mine.keys()))
            if blank and len(theirs):
                c.fail(label + "/blank-is-empty", f"a blank copy starts with a non-empty {attr}")
            if not blank and not same:
                c.fail(label + "/same-content", f"{attr} of the copy differs from the original's")
        if not blank and bool(o._exhausted) != bool(s._exhausted):
            c.fail(label + "/same-content", "_exhausted differs")
        return "blank" if blank else "copy"

    return explore(body, {"budget_s": 120, "max_depth": 2000, "replay": replay_modelcache_copy})


def replay_modelcache_copy(failure=None):
    """native: a branch gets a constraint while nothing is cached, then the original finds a model the branch's constraint excludes"""
    import claripy
    x = claripy.BVS("kf_mc_x", 8, explicit_name=True)
    s = claripy.Solver()
    s.add(claripy.ULT(x, 200))
    b = s.branch()
    b.add(claripy.ULT(x, 10))
    s.add(claripy.UGT(x, 100))
    s.eval(x, 1)
    got = b.eval(x, 3)
    bad = [v for v in got if v >= 10]
    return {"reproduced": bool(bad), "text": f"s.add(x <u 200); b = s.branch(); b.add(x <u 10); s.add(x >u 100); s.eval(x, 1); b.eval(x, 3) = {got}" + (f": {bad} violate the branch's constraints" if bad else "")}
