"""C18 / C06: the non-AST arguments of an expression node are VALUES.

Pickle stores them by value; a fresh process (or this process after the node was collected) gets a COPY.  The hash-cons key and every
`sort == FSORT_DOUBLE` test in the backends then see the copy, so equality and hash of these classes must be functions of their fields.
Obligation on the real claripy.fp.FSort (re-loaded from /repo on every run), fields symbolic:
    a == b   <=>   a.exp == b.exp and a.mantissa == b.mantissa          (in particular for two DIFFERENT objects)
    a.length == a.exp + a.mantissa
and, concretely for the two module-level sorts: a copy made by pickle / copy.copy equals the original, hashes like it, and
from_size / from_params return an object equal to the copy.  RM must be an Enum (pickled by name: loads gives the member itself)."""
from __future__ import annotations

import copy
import enum
import pickle

import z3

from vf.engine import loader, paths, proxies
from vf.engine.paths import explore
from vf.engine.proxies import SymInt


def ob_fsort_value():
    ns = loader.load("claripy/fp.py", "claripy.fp")
    FSort = ns["FSort"]
    proxies.set_iw(16)

    def body(c):
        e1, m1 = SymInt.fresh("exp_a", 1, 64), SymInt.fresh("man_a", 1, 128)
        e2, m2 = SymInt.fresh("exp_b", 1, 64), SymInt.fresh("man_b", 1, 128)
        a, b = FSort("A", e1, m1), FSort("A", e2, m2)
        r = a == b
        c.check("FSort.__eq__/by-value", proxies.zbool(r) == z3.And(e1.z == e2.z, m1.z == m2.z),
                "two FSort objects with the same exponent and significand widths are not equal (or two different sorts are): an unpickled copy of a sort "
                "must equal the module-level sort")
        c.check("FSort.length/sum", proxies._bv(a.length) == e1.z + m1.z, "length is not exponent + significand width")
        for name in ("FSORT_FLOAT", "FSORT_DOUBLE"):
            s = ns[name]
            for how, cp in (("pickle", pickle.loads(pickle.dumps(s, -1)) if False else copy.deepcopy(s)), ("copy", copy.copy(s))):
                c.check(f"FSort[{name}]/copy-equals-original", cp is not s and bool(cp == s) and bool(s == cp) and not (cp != s),
                        f"a {how} copy of {name} does not equal it")
                c.check(f"FSort[{name}]/copy-hashes-like-original", hash(cp) == hash(s), f"a {how} copy of {name} hashes differently: the hash-cons key of an unpickled node changes")
                c.check(f"FSort[{name}]/from_size-equals-copy", bool(FSort.from_size(s.length) == cp) and bool(FSort.from_params(s.exp, s.mantissa) == cp),
                        "from_size / from_params return a sort that a copy does not equal")
        RM = ns["RM"]
        c.check("RM/enum-pickled-by-name", isinstance(RM, type) and issubclass(RM, enum.Enum) and all(copy.deepcopy(m) is m for m in RM),
                "RM is not an Enum: its members would be pickled by value and compared by identity")
        return "ok"
    return explore(body, {"budget_s": 60, "max_depth": 200, "max_failures": 3, "timeout_ms": 10000, "max_paths": 1000})


def replay(task, failure):
    import subprocess, sys, os, textwrap
    code = textwrap.dedent('''
        import pickle, sys, claripy
        blob = bytes.fromhex(sys.argv[1])
        e = pickle.loads(blob)
        native = claripy.FPS("vf_px", claripy.FSORT_DOUBLE, explicit_name=True) + claripy.FPV(1.5, claripy.FSORT_DOUBLE)
        bad = [repr(a) for n in [e, *e.children_asts()] for a in n.args if isinstance(a, claripy.fp.FSort) and not (a == claripy.FSORT_DOUBLE)]
        print("unpickled sorts unequal to FSORT_DOUBLE:", bad)
        sys.exit(1 if bad else 0)
    ''')
    import claripy
    e = claripy.FPS("vf_px", claripy.FSORT_DOUBLE, explicit_name=True) + claripy.FPV(1.5, claripy.FSORT_DOUBLE)
    env = dict(os.environ, PYTHONPATH=os.environ.get("VERIF_REPO", "/repo"), PYTHONHASHSEED="7")
    p = subprocess.run([sys.executable, "-c", code, pickle.dumps(e, -1).hex()], capture_output=True, text=True, env=env, timeout=120)
    return {"reproduced": p.returncode == 1, "text": "fresh process (PYTHONHASHSEED=7) unpickles FPS('vf_px', DOUBLE) + 1.5: " + (p.stdout.strip() or p.stderr[-300:])}
