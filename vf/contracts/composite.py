"""C12 (proved part): the real CompositeFrontend (claripy/frontend/composite_frontend.py, re-loaded from /repo on every run) in isolation on
top of contract stubs of its child solvers.

Semantic universe: three 1-bit variables a, b, c (8 assignments).  A constraint is a symbolic truth table over the 8 assignments that depends
only on its own variables (support assumption), an expression is a symbolic value table with the same property - so children over disjoint
variables are INDEPENDENT, which is what the composite solver exploits.  A child solver stub holds a constraint list and a variable set; its
combine / split / branch are the C15 contracts, its queries return a recorded token, its satisfiability answers are exact.  A child that
another composite also holds is `frozen`: extending it is a failed obligation.

Representation invariant Rep(cf):
   R1  _solvers[v] is a child that mentions v, and every variable of a stored child maps to that child (children partition the variables)
   R2  not _unsat:  Mod(all children's constraints) = Mod(G)        (G: every constraint ever added);      _unsat:  Mod(G) is empty
   R3  only children in _owned_solvers are ever extended (copy on write through _claim)
   R4  a stored child that is not in _unchecked_solvers is satisfiable on its own
Obligations, from an arbitrary state satisfying Rep (children over every partition shape of {a,b,c}, each owned or frozen, checked or not):
   _add          for a constraint over any variable set (connecting children, new variables, concrete True / False): Rep for G + c
   satisfiable / check_satisfiability     the answer is exactly "Mod(G & extra) is non-empty"
   eval / batch_eval / max / min / solution     the child that is asked holds constraints under which the queried expressions take exactly the
                 values they take under G & extra (this needs the other children to be satisfiable: _ensure_sat), the answer is returned
                 unchanged, Rep holds afterwards
   is_true / is_false                      the child that is asked holds a subset-equivalent view: its constraints are implied by G
   branch / split / simplify               Rep for both sides; no child is owned by two composites afterwards
(Round 3: the value clause failed for extra constraints given on an already unsatisfiable constraint set - the recorded finding
"ensure-sat-skipped-with-extras" - and holds without any exclusion since the repair of _ensure_sat.)
"""
from __future__ import annotations

import itertools
import z3

from vf.engine import loader, paths, proxies
from vf.engine.paths import cur, explore, Undecided, PathEnd
from vf.engine.proxies import SymBool, SymInt
from claripy.errors import BackendError, UnsatError, ClaripySolverInterruptError

CP_PATH = "claripy/frontend/composite_frontend.py"
POOL = ["a", "b", "c"]
NA = 1 << len(POOL)
ALL1 = z3.BitVecVal((1 << NA) - 1, NA)


def _support(table, variables):
    """assumption: the truth table depends only on `variables`"""
    c = cur()
    for i in range(NA):
        for k, v in enumerate(POOL):
            if v not in variables and not (i >> k) & 1:
                c.assume(z3.Extract(i, i, table) == z3.Extract(i | (1 << k), i | (1 << k), table))


class TBase:
    n = 0

    def hash(self):
        return self.uid

    def clear_annotations(self):
        return self

    def __vf_is__(self, o):
        return self is o

    def __bool__(self):
        raise Undecided("truth value of a handle")


class TC(TBase):
    """constraint handle"""
    def __init__(self, variables, name="c", table=None, op="opaque", args=(), concrete=None):
        TBase.n += 1
        self.uid = TBase.n
        self.variables = frozenset(variables)
        self.op, self.args, self.annotations = op, tuple(args), ()
        self.concrete_value = concrete
        self.symbolic = bool(self.variables)
        if concrete is not None:
            self.table = ALL1 if concrete else z3.BitVecVal(0, NA)
        elif table is not None:
            self.table = table
        else:
            self.table = z3.BitVec(f"{name}{self.uid}", NA)
            cur().watch[f"{name}{self.uid}"] = self.table
            _support(self.table, self.variables)

    def __repr__(self):
        return f"<{self.op}#{self.uid} over {sorted(self.variables)}>"


class TE(TBase):
    """1-bit expression handle: value table = the set of assignments under which it is 1"""
    def __init__(self, variables, name="e"):
        TBase.n += 1
        self.uid = TBase.n
        self.variables = frozenset(variables)
        self.annotations = ()
        self.table = z3.BitVec(f"{name}{self.uid}", NA)
        cur().watch[f"{name}{self.uid}"] = self.table
        _support(self.table, self.variables)


def conj(cs):
    t = ALL1
    for x in cs:
        t = t & x.table
    return t


class TChild:
    """contract of a child solver (SolverCompositeChild: C11)"""
    n = 0
    all = []        # every child created on the current path (reset per run)
    faults = False  # C17: children may raise ClaripySolverInterruptError instead of answering a satisfiability check

    def __init__(self, constraints=(), variables=(), frozen=False):
        TChild.n += 1
        TChild.all.append(self)
        self.uid = TChild.n
        self.constraints = list(constraints)
        self.variables = set(variables) | set().union(*[x.variables for x in self.constraints]) if self.constraints else set(variables)
        self.frozen = frozen
        self.mutated_while_frozen = False
        self.log = []
        self.timeout = 1
        self.max_memory = None

    def __repr__(self):
        return f"<child#{self.uid} {sorted(self.variables)}{' frozen' if self.frozen else ''}>"

    def __hash__(self):
        return id(self)

    def __eq__(self, o):
        return self is o

    def add(self, cs, invalidate_cache=True, **kw):
        cs = list(cs) if isinstance(cs, (list, tuple, set)) else [cs]
        if self.frozen and cs:
            self.mutated_while_frozen = True
        self.constraints.extend(cs)
        for x in cs:
            self.variables |= set(x.variables)
        return cs

    def branch(self):
        return TChild(self.constraints, self.variables)

    def blank_copy(self):
        return TChild()

    def combine(self, others):
        cs = [x for s in [self, *others] for x in s.constraints]
        vs = set().union(*[s.variables for s in [self, *others]])
        return TChild(cs, vs)

    def split(self):
        # contract of ConstrainedFrontend.split (C15): independent pieces (connected components over shared variables)
        comps = []
        for x in self.constraints:
            vs, cl = set(x.variables), [x]
            rest = []
            for (v2, c2) in comps:
                if v2 & vs:
                    vs |= v2
                    cl = c2 + cl
                else:
                    rest.append((v2, c2))
            comps = rest + [(vs, cl)]
        if not comps:
            return [TChild()]
        return [TChild(cl, vs) for vs, cl in comps]

    def _sat(self, extra):
        return conj(self.constraints) & conj(list(extra)) != 0

    def check_satisfiability(self, extra_constraints=(), exact=None):
        self.log.append(("check_satisfiability", (), tuple(extra_constraints)))
        if TChild.faults and cur().choose([True, True], f"child{self.uid}-backend-gives-up") == 1:
            cur().ghost["child_gave_up"] = True
            raise ClaripySolverInterruptError("timeout")           # C17: the backend may give up at every solver call
        return "SAT" if cur().branch(self._sat(extra_constraints), f"child{self.uid}-sat") else "UNSAT"

    def satisfiable(self, extra_constraints=(), exact=None):
        return self.check_satisfiability(extra_constraints) == "SAT"

    def _q(self, name, args, extra, **params):
        tok = ("answer", name, self.uid, len(self.log))
        self.log.append((name, args, tuple(extra), tok, params))
        return tok

    def eval(self, e, n, extra_constraints=(), exact=None):
        return self._q("eval", (e,), extra_constraints, n=n)

    def batch_eval(self, es, n, extra_constraints=(), exact=None):
        return self._q("batch_eval", tuple(es), extra_constraints, n=n)

    def max(self, e, extra_constraints=(), signed=False, exact=None):
        return self._q("max", (e,), extra_constraints, signed=signed)

    def min(self, e, extra_constraints=(), signed=False, exact=None):
        return self._q("min", (e,), extra_constraints, signed=signed)

    def solution(self, e, v, extra_constraints=(), exact=None):
        return self._q("solution", (e, v), extra_constraints)

    def is_true(self, e, extra_constraints=(), exact=None):
        return self._q("is_true", (e,), extra_constraints)

    def is_false(self, e, extra_constraints=(), exact=None):
        return self._q("is_false", (e,), extra_constraints)

    def merge(self, others, merge_conditions, common_ancestor=None):
        # contract of ConstrainedFrontend.merge (proved under C15): one solver holding Or_i(cond_i and constraints_i)
        ins = [self, *others]
        parts = []
        for s_, cond in zip(ins, merge_conditions):
            t = cond.table
            vs = set(cond.variables)
            for x in s_.constraints:
                t = t & x.table
                vs |= set(x.variables)
            parts.append(TC(vs, name="and", table=t, op="And"))
        m = Or_c(*parts)
        return True, TChild([m], set().union(*[p.variables for p in parts]))

    def unsat_core(self, extra_constraints=()):
        return ()

    def simplify(self):
        return self.constraints

    def downsize(self):
        pass

    def finalize(self):
        pass

    def update(self, other):
        pass


class _Backends:
    class concrete:
        @staticmethod
        def convert(c):
            if c.concrete_value is None:
                raise BackendError("not concrete")
            return c.concrete_value


def Or_c(*hs):
    t = z3.BitVecVal(0, NA)
    for h in hs:
        t = t | h.table
    return TC(frozenset().union(*[h.variables for h in hs]) if hs else (), name="or", table=t, op="Or", args=hs)


_cache = {}


CC_PATH = "claripy/frontend/mixin/composited_cache_mixin.py"


def load():
    """CompositeFrontend with the real CompositedCacheMixin on top (as in SolverComposite): the cache of merged solvers is part of the state"""
    if "ns" not in _cache:
        ns = loader.load(CP_PATH, "claripy.frontend.composite_frontend", overrides={"Base": TBase, "backends": _Backends, "Or": Or_c})
        cc = loader.load(CC_PATH, "claripy.frontend.mixin.composited_cache_mixin")
        ns["CompositeWithCache"] = type("CompositeWithCache", (cc["CompositedCacheMixin"], ns["CompositeFrontend"]), {})
        _cache["ns"] = ns
    return _cache["ns"]


PARTITIONS = [[], ["a"], ["ab"], ["a", "b"], ["a", "bc"], ["ab", "c"], ["a", "b", "c"]]


# a child that holds INDEPENDENT constraints ("a|b": one over a, one over b - what is left of a child after the constraint that connected
# them was simplified away, or after a query merged two children): the states in which _split_child really splits
SPLITTABLE = [["a|b"], ["a|b", "c"]]


def mk(CF, c, with_unsat_flag=False, part=None, more=()):
    """an arbitrary composite satisfying Rep"""
    shapes = PARTITIONS + list(more)
    shape = shapes[c.choose([True] * len(shapes), "children")] if part is None else PARTITIONS[part]
    cf = CF(TChild())
    cf.ghostG = []
    kids = []
    for vs in shape:
        parts = vs.split("|")
        vs = "".join(parts)
        k = TChild([TC(set(p), name="k") for p in parts], set(vs), frozen=(c.choose([True, True], f"owned-{vs}") == 1))
        kids.append(k)
        for v in vs:
            cf._solvers[v] = k
        if not k.frozen:
            cf._owned_solvers.add(k)
        if c.choose([True, True], f"checked-{vs}") == 0:
            c.assume(conj(k.constraints) != 0)              # R4: a checked child is satisfiable
        else:
            cf._unchecked_solvers.add(k)
        cf.ghostG += k.constraints
    cf.constraints = list(cf.ghostG)
    cf.ghost_kids = kids
    # R5: the cache of merged solvers holds, for a set of names, a solver with the models of the children connected to those names: either
    # the one child itself, or a combination that this composite does not own (a branch may hold the same object)
    if kids and hasattr(cf, "_merged_solvers"):
        k = c.choose([True] * 3, "merged-cache")          # none / one child under its own names / a combination of the first two children
        if k == 1:
            cf._merged_solvers[frozenset(kids[0].variables)] = kids[0]
        elif k == 2 and len(kids) >= 2:
            m = TChild(kids[0].constraints + kids[1].constraints, kids[0].variables | kids[1].variables, frozen=True)
            cf._merged_solvers[frozenset(m.variables)] = m
    if with_unsat_flag and c.choose([True, True], "unsat-flag") == 1:
        cf._unsat = True
        f = TC((), name="false", concrete=False)
        cf.ghostG.append(f)
    if not c.path_feasible():
        raise PathEnd()
    return cf


def rep(c, cf, label, frozen_watch=()):
    kids = cf._solver_list
    for v, k in cf._solvers.items():
        c.check(label + "/R1-child-mentions-its-variable", v in k.variables, f"_solvers[{v!r}] is a child that does not mention {v!r}", kind="invariant")
    for k in kids:
        for v in k.variables:
            c.check(label + "/R1-variables-map-to-their-child", cf._solvers.get(v) is k, f"variable {v!r} of a stored child maps to another child (children overlap)", kind="invariant")
    G = conj(cf.ghostG)
    if cf._unsat:
        c.check(label + "/R2-unsat-flag-only-if-unsat", G == 0, "_unsat is set although the constraints are satisfiable", kind="invariant")
    else:
        c.check(label + "/R2-children-hold-the-constraints", conj([x for k in kids for x in k.constraints]) == G,
                "the children's constraints do not have the models of the constraints that were added", kind="invariant")
    for k in list(frozen_watch) + kids:
        c.check(label + "/R3-copy-on-write", not k.mutated_while_frozen, f"a child that this composite does not own was extended ({k})", kind="invariant")
    for names, m in getattr(cf, "_merged_solvers", {}).items():
        conn = [k for k in kids if k.variables & set(names)]
        # closure: children connected through the variables of the children already connected
        want = conj([x for k in conn for x in k.constraints])
        c.check(label + "/R5-merged-cache-current", conj(m.constraints) == want and set().union(*[k.variables for k in conn], set()) <= set(m.variables) | set(),
                f"the cached merged solver for {sorted(names)} does not hold the current constraints of the children it stands for", kind="invariant")
        c.check(label + "/R3-copy-on-write", not m.mutated_while_frozen, f"a cached merged solver that this composite does not own was extended ({m})", kind="invariant")
    for k in kids:
        if k not in cf._unchecked_solvers:
            c.check(label + "/R4-checked-children-satisfiable", conj(k.constraints) != 0, "a child that is not marked unchecked is unsatisfiable", kind="invariant")


VARSETS = [(), ("a",), ("b",), ("c",), ("a", "b"), ("b", "c"), ("a", "c"), ("a", "b", "c")]
FAULT_METHODS = ["satisfiable[fault]", "eval[fault]"]
METHODS = ["_add", "_add[concrete]", "satisfiable", "eval", "batch_eval", "max", "min", "solution", "is_true", "is_false", "branch", "split", "simplify"]


def _opts(tier):
    return {"budget_s": 280, "max_depth": 6000, "max_failures": 3, "timeout_ms": 20000, "max_paths": 80000}


def ob_composite(method, tier="quick", part=None):
    CF = load()["CompositeWithCache"]
    proxies.set_iw(16)

    def body(c):
        TBase.n = 0
        TChild.n = 0
        TChild.all = []
        TChild.faults = method.endswith("[fault]")
        label = f"CompositeFrontend.{method}"
        cf = mk(CF, c, with_unsat_flag=method in ("satisfiable", "eval"), part=part, more=SPLITTABLE if method in ("simplify", "split", "_add") else ())
        if method.endswith("[fault]"):
            # C17: a child's solver call gives up.  The error must surface as a claripy error and the composite must stay what it was:
            # Rep holds (in particular a child that was not checked successfully is still marked unchecked), so that every later answer
            # - also of a branch - is still computed from all constraints
            x = (TC(VARSETS[1 + c.choose([True] * (len(VARSETS) - 1), "extra-variables")], name="x"),) if c.choose([True, True], "n-extra") == 1 else ()
            try:
                if method.startswith("satisfiable"):
                    r = cf.satisfiable(extra_constraints=x)
                    c.check(label + "/exact-when-answered", proxies.zbool(r) == ((conj(cf.ghostG) & conj(list(x))) != 0), "satisfiable() answered wrongly")
                else:
                    cf.eval(TE(("a",), name="e"), 2, extra_constraints=x)
            except ClaripySolverInterruptError:
                c.check(label + "/error-only-if-a-child-gave-up", bool(c.ghost.get("child_gave_up")), "ClaripySolverInterruptError although no child gave up")
            except UnsatError:
                pass
            except (PathEnd, Undecided):
                raise
            except Exception as exn:  # noqa
                c.fail(label + "/raises", f"{type(exn).__name__}: {exn}", kind="raises")
                return "raised"
            TChild.faults = False
            rep(c, cf, label + "[after]", list(cf.ghost_kids))
            return method
        kids0 = list(cf.ghost_kids)
        try:
            if method == "_add":
                vs = VARSETS[1 + c.choose([True] * (len(VARSETS) - 1), "constraint-variables")]
                new = TC(vs, name="new")
                cf.ghostG = cf.ghostG + [new]
                cf.add([new])
                rep(c, cf, label, kids0)
                c.check(label + "/constraints-listed", any(x is new for x in cf.constraints), "the added constraint is not in .constraints")
            elif method == "_add[concrete]":
                val = c.choose([True, True], "value") == 0
                new = TC((), name="conc", concrete=val)
                cf.ghostG = cf.ghostG + [new]
                cf.add([new])
                rep(c, cf, label, kids0)
            elif method == "satisfiable":
                x = ()
                if c.choose([True, True], "n-extra") == 1:
                    x = (TC(VARSETS[1 + c.choose([True] * (len(VARSETS) - 1), "extra-variables")], name="x"),)
                r = cf.satisfiable(extra_constraints=x)
                want = (conj(cf.ghostG) & conj(list(x))) != 0
                c.check(label + "/exact", proxies.zbool(r) == want, "satisfiable() disagrees with the constraints")
                rep(c, cf, label, kids0)
            elif method in ("eval", "batch_eval", "max", "min", "solution", "is_true", "is_false"):
                e = TE(VARSETS[1 + c.choose([True] * (len(VARSETS) - 1), "expr-variables")], name="e")
                x = ()
                if c.choose([True, True], "n-extra") == 1:
                    x = (TC(VARSETS[1 + c.choose([True] * (len(VARSETS) - 1), "extra-variables")], name="x"),)
                G = conj(cf.ghostG)
                GX = G & conj(list(x))
                try:
                    # the caller's other parameters (how many values, which signedness) must reach the child unchanged
                    params = {}
                    if method == "eval":
                        params = {"n": 1 + c.choose([True] * 3, "n")}
                        r = cf.eval(e, params["n"], extra_constraints=x)
                    elif method == "batch_eval":
                        params = {"n": 1 + c.choose([True] * 3, "n")}
                        r = cf.batch_eval([e], params["n"], extra_constraints=x)
                    elif method in ("max", "min"):
                        params = {"signed": c.choose([True, True], "signed") == 1}
                        r = getattr(cf, method)(e, extra_constraints=x, signed=params["signed"])
                    elif method == "solution":
                        # the value asked about may itself be symbolic, over variables constrained in ANOTHER child than e's
                        v = TE(VARSETS[c.choose([True] * len(VARSETS), "value-variables")], name="v")
                        r = cf.solution(e, v, extra_constraints=x)
                    else:
                        r = getattr(cf, method)(e, extra_constraints=x)
                except UnsatError:
                    c.check(label + "/unsat-error-only-if-unsat", G == 0 if not x else GX == 0 if False else (G == 0), "UnsatError although the constraints are satisfiable")
                    rep(c, cf, label, kids0)
                    return "unsat-error"
                asked = [(k, l) for k in TChild.all for l in k.log if l[0] == method]
                c.check(label + "/one-child-asked", len(asked) == 1 and r is asked[0][1][3], "not exactly one child was asked, or its answer was changed")
                if len(asked) == 1:
                    k, l = asked[0]
                    c.check(label + "/same-question", (l[1][0] is e) and tuple(l[2]) == x, "the child was asked about another expression or other extra constraints")
                    c.check(label + "/same-parameters", len(l) < 5 or l[4] == params, f"the child was asked with {l[4] if len(l) > 4 else None}, the caller asked with {params}")
                    K = conj(k.constraints) & conj(list(x))
                    if method in ("is_true", "is_false"):
                        c.check(label + "/child-view-implied", (G & ~conj(k.constraints)) == 0, "the child that was asked holds a constraint that the solver's constraints do not imply")
                    elif method == "solution":
                        c.check(label + "/same-question[value]", l[1][1] is v, "the child was asked about another value")
                        for eq in (~(e.table ^ v.table), e.table ^ v.table):
                            c.check(label + "/same-values", ((K & eq) != 0) == ((GX & eq) != 0),
                                    "under the asked child's constraints e == v is (im)possible although under the solver's constraints it is not: the child does not "
                                    "hold the constraints over the variables of e, v and the extra constraints")
                    else:
                        for bitval in (0, 1):
                            ev = e.table if bitval else ~e.table
                            c.check(label + "/same-values", ((K & ev) != 0) == ((GX & ev) != 0),
                                    f"under the asked child's constraints the expression can{'not' if False else ''} take a value that it cannot take under the solver's constraints (or the other way round)")
                rep(c, cf, label, kids0)
            elif method == "branch":
                br = cf.branch()
                br.ghostG = list(cf.ghostG)
                c.check(label + "/own-table", br._solvers is not cf._solvers, "the branch shares the _solvers table")
                shared = [k for k in br._solver_list if any(k is k2 for k2 in cf._solver_list)]
                for k in shared:
                    c.check(label + "/shared-children-owned-by-nobody", k not in cf._owned_solvers and k not in br._owned_solvers,
                            "a child shared by the two sides is still owned by one of them (it would be extended in place)")
                    k.frozen = True
                rep(c, cf, label + "[parent]", kids0)
                rep(c, br, label + "[branch]", kids0)
                # and an add on the branch leaves the parent's children alone
                new = TC(VARSETS[1 + c.choose([True] * (len(VARSETS) - 1), "constraint-variables")], name="new")
                br.ghostG = br.ghostG + [new]
                br.add([new])
                rep(c, br, label + "[branch-after-add]", kids0)
                rep(c, cf, label + "[parent-after-branch-add]", kids0)
            elif method == "split":
                pieces = cf.split()
                c.check(label + "/fresh-pieces", all(all(p is not k for k in kids0) for p in pieces), "split() handed out a stored child instead of a copy")
                c.check(label + "/model-set", conj([x for p in pieces for x in p.constraints]) == conj(cf.ghostG), "the pieces together do not have the models of the solver")
                rep(c, cf, label, kids0)
            elif method == "simplify":
                cf.simplify()
                rep(c, cf, label, kids0)
                c.check(label + "/constraints-models", conj(cf.constraints) == conj(cf.ghostG), ".constraints does not have the models of the solver after simplify()")
        except (PathEnd, Undecided):
            raise
        except Exception as exn:  # noqa
            import traceback
            c.fail(label + "/raises", f"{type(exn).__name__}: {exn} :: {traceback.format_exc()[-500:]}", kind="raises")
            return "raised"
        return method
    return explore(body, _opts(tier))


def ob_composite_merge(tier="quick", shape=0):
    """CompositeFrontend.merge (no common ancestor given) in isolation.  Three composites that are branches of one ancestor: per child of the
    ancestor each of them either still holds the ancestor's child object (shared) or its own copy with one more constraint; the children may
    be checked or not.  Merge conditions over arbitrary variables.  Post: the merged composite satisfies the representation invariant (in
    particular R4: a child it takes over without knowing that it is satisfiable is marked unchecked; R3: it extends nothing it does not own)
    and  Mod(merged) = OR_i (cond_i and Mod(input_i))."""
    CF = load()["CompositeWithCache"]
    proxies.set_iw(16)
    shapes = [["a"], ["a", "b"], ["ab", "c"]]

    def body(c):
        TBase.n = 0
        TChild.n = 0
        TChild.all = []
        TChild.faults = False
        label = "CompositeFrontend.merge"
        base = []
        for vs in shapes[shape]:
            k = TChild([TC(set(vs), name="k")], set(vs), frozen=True)           # the ancestor's child: owned by none of the three branches
            checked = c.choose([True, True], f"ancestor-checked-{vs}") == 0
            if checked:
                c.assume(conj(k.constraints) != 0)
            base.append((k, checked))
        inputs = []
        for j in range(3):
            cf = CF(TChild())
            cf.ghostG = []
            for k, checked in base:
                own = c.choose([True, True], f"input{j}-extends-{''.join(sorted(k.variables))}") == 1
                if own:
                    kk = TChild(list(k.constraints) + [TC(set(k.variables), name=f"x{j}")], set(k.variables), frozen=False)
                    cf._owned_solvers.add(kk)
                    cf._unchecked_solvers.add(kk)
                else:
                    kk = k
                    if not checked:
                        cf._unchecked_solvers.add(kk)
                for v in kk.variables:
                    cf._solvers[v] = kk
                cf.ghostG += kk.constraints
            cf.constraints = list(cf.ghostG)
            inputs.append(cf)
        conds = [TC(VARSETS[c.choose([True] * 4, f"cond{j}-variables")], name=f"cond{j}") for j in range(3)]
        for cond in conds:
            if not cond.variables:
                # recorded finding: a constraint without variables (here: a merge condition that is the constant False) has no child to live
                # in; the composite keeps a concrete False in its _unsat flag only, and merge loses it
                c.known("rtc:composite/unsat-flag-lost", cond.table == 0)
        if not c.path_feasible():
            raise PathEnd()
        want = z3.BitVecVal(0, NA)
        for cf, cond in zip(inputs, conds):
            want = want | (cond.table & conj(cf.ghostG))
        try:
            ok, merged = inputs[0].merge(inputs[1:], conds)
        except (PathEnd, Undecided):
            raise
        except Exception as exn:  # noqa
            import traceback
            c.fail(label + "/raises", f"{type(exn).__name__}: {exn} :: {traceback.format_exc()[-500:]}", kind="raises")
            return "raised"
        merged.ghostG = None
        kids = []
        for k in merged._solvers.values():
            if not any(k is x for x in kids):
                kids.append(k)
        got = conj([x for k in kids for x in k.constraints])
        c.check(label + "/model-set", got == want, "the merged composite's children do not have the models OR_i(cond_i and input_i)")
        c.check(label + "/constraints-list", conj(merged.constraints) == want, "merged.constraints does not have the models OR_i(cond_i and input_i)")
        for v, k in merged._solvers.items():
            c.check(label + "/R1-child-mentions-its-variable", v in k.variables, f"_solvers[{v!r}] does not mention {v!r}", kind="invariant")
        for k in kids:
            for v in k.variables:
                c.check(label + "/R1-variables-map-to-their-child", merged._solvers.get(v) is k, f"variable {v!r} of a stored child maps to another child", kind="invariant")
            if k not in merged._unchecked_solvers:
                c.check(label + "/R4-checked-children-satisfiable", conj(k.constraints) != 0,
                        f"the merged composite holds {k} without marking it unchecked although nobody has checked it: satisfiable() will not look at it", kind="invariant")
            if k.frozen:
                c.check(label + "/R3-shared-children-not-owned", k not in merged._owned_solvers, "the merged composite owns (would write in place) a child that the inputs share", kind="invariant")
        for k, _ in base:
            c.check(label + "/R3-copy-on-write", not k.mutated_while_frozen, f"the ancestor's child {k} was extended in place", kind="invariant")
        return f"merged:{len(kids)}"

    return explore(body, dict(_opts(tier), replay=replay_merge))


def replay_merge(failure=None):
    """native: a composite whose child over a is unsatisfiable but was never checked is branched twice; the branches diverge on b and are merged"""
    import claripy
    a, b = claripy.BVS("kf_merge_a", 4, explicit_name=True), claripy.BVS("kf_merge_b", 4, explicit_name=True)
    s = claripy.SolverComposite()
    s.add(claripy.ULT(a, 3))
    s.add(claripy.UGT(a, 5))
    s1, s2 = s.branch(), s.branch()
    s1.add(b == 1)
    s2.add(b == 2)
    _, m = s1.merge([s2], [b == 1, b == 2])
    ref = claripy.Solver()
    ref.add(list(m.constraints))
    got, want = m.satisfiable(), ref.satisfiable()
    return {"reproduced": got != want, "text": f"SolverComposite: add(a <u 3); add(a >u 5) [never queried]; two branches add b == 1 / b == 2; merge: merged.satisfiable() = {got}, "
            f"a plain Solver over merged.constraints {m.constraints!r}: {want}"}
