"""C03 (proved part, bounded in string length): every concrete string operation of claripy/backends/backend_concrete/strings.py (re-loaded
from /repo on every run) folds to what the Z3 translation of the same operation (the real BackendZ3._op_raw_Str* functions) denotes - for ALL
strings up to a stated length over ALL characters and ALL 64-bit integer arguments.

A symbolic string `SymStr` has a concrete length per path and symbolic characters (z3 Char constants: the full Unicode range of the string
theory).  The Python str methods the folding code calls are answered by their library contract, stated operationally on character lists
(slicing with Python's clamping, replace-first, substring search, prefix / suffix tests, index with ValueError, join, iteration,
int() of ASCII digit strings, str() of a non-negative integer); integer arguments are SymInt values of the real concrete BVV class.
Obligation per operation:      fold(args)  ==  [[ _op_raw_X(z3 args) ]]      proved by z3 (sequence theory on fixed-length strings of symbolic
characters) under the path condition.  A foreign exception on a feasible path is a failed obligation (C04).
"""
from __future__ import annotations

import z3

from vf.engine import loader, paths, proxies
from vf.engine.paths import cur, explore, Undecided, PathEnd
from vf.engine.proxies import SymInt, SymBool, _bv

STR_PATH = "claripy/backends/backend_concrete/strings.py"
BV_PATH = "claripy/backends/backend_concrete/bv.py"
Z3_PATH = "claripy/backends/backend_z3.py"


class SymChar:
    __slots__ = ("c",)

    def __init__(self, c):
        self.c = c

    def __eq__(self, o):
        if isinstance(o, SymChar):
            return SymBool(self.c == o.c)
        if isinstance(o, str) and len(o) == 1:
            return SymBool(self.c == z3.CharVal(ord(o)))
        return False

    def __ne__(self, o):
        r = self.__eq__(o)
        return (not r) if isinstance(r, bool) else SymBool(z3.Not(r.z))

    def __hash__(self):
        raise Undecided("hash of a symbolic character")

    def __vf_in_literal__(self, lit):
        """`c in "literal"`"""
        if not lit:
            return False
        return SymBool(z3.Or(*[self.c == z3.CharVal(ord(ch)) for ch in lit]))


def _zbool(x):
    return proxies.zbool(x) if isinstance(x, (bool, SymBool)) else x


_tables = {}


def _ranges(pred):
    """code point ranges of a CPython str predicate (computed from the running interpreter's Unicode tables: the library contract is the
    library itself, evaluated exhaustively over all code points)"""
    if pred not in _tables:
        out, start = [], None
        for cp in range(0x110000):
            ok = getattr(chr(cp), pred)()
            if ok and start is None:
                start = cp
            elif not ok and start is not None:
                out.append((start, cp - 1)); start = None
        if start is not None:
            out.append((start, 0x10FFFF))
        _tables[pred] = out
    return _tables[pred]


def char_pred(ch, pred):
    ci = z3.CharToInt(ch)
    return z3.Or(*[z3.And(ci >= a, ci <= b) if a != b else ci == a for a, b in _ranges(pred)])


class SymStr:
    """a Python str of concrete length whose characters are symbolic"""

    def __init__(self, chars):
        self.chars = list(chars)

    # ---- reference term
    def term(self):
        if not self.chars:
            return z3.Empty(z3.StringSort())
        us = [z3.Unit(c) for c in self.chars]
        return z3.Concat(*us) if len(us) > 1 else us[0]

    def __len__(self):
        return len(self.chars)

    def __bool__(self):
        return bool(self.chars)

    def __iter__(self):
        return iter([SymChar(c) for c in self.chars])

    def __repr__(self):
        return f"<SymStr len={len(self.chars)}>"

    def __hash__(self):
        raise Undecided("hash of a symbolic string")

    def _match_at(self, j, sub):
        """z3 Bool: self[j:j+len(sub)] == sub   (False if it does not fit)"""
        if j < 0 or j + len(sub) > len(self.chars):
            return z3.BoolVal(False)
        return z3.And(*[self.chars[j + k] == sub.chars[k] for k in range(len(sub))]) if sub.chars else z3.BoolVal(True)

    def __eq__(self, o):
        if not isinstance(o, SymStr):
            return False
        if len(o) != len(self):
            return False
        return SymBool(self._match_at(0, o))

    def __ne__(self, o):
        r = self.__eq__(o)
        return (not r) if isinstance(r, bool) else SymBool(z3.Not(r.z))

    def __getitem__(self, k):
        n = len(self.chars)
        if not isinstance(k, slice) or k.step is not None:
            raise Undecided("only plain slices of a symbolic string")

        def clamp(v, default):
            if v is None:
                return default
            if isinstance(v, int):
                return max(0, min(n, v if v >= 0 else n + v))
            # SymInt: non-negative in the folding code (BVV values); Python clamps to [0, n]
            c = cur()
            if c.branch(_bv(v) < 0, "negative-index"):
                raise Undecided("negative symbolic index")
            for i in range(n):
                if c.branch(_bv(v) == i, f"index={i}"):
                    return i
            return n
        a, b = clamp(k.start, 0), clamp(k.stop, n)
        return SymStr(self.chars[a:b])

    def _find(self, sub, start=0):
        """first j >= start with a match, as a concrete int decided by forks; None if none"""
        c = cur()
        for j in range(start, len(self.chars) - len(sub) + 1):
            if c.branch(self._match_at(j, sub), f"match@{j}"):
                return j
        return None

    def __contains__(self, sub):
        if not isinstance(sub, SymStr):
            raise TypeError("'in <string>' requires string as left operand")
        return self._find(sub) is not None

    def replace(self, old, new, count=-1):
        if count != 1:
            raise Undecided("replace with a count other than 1")
        j = self._find(old)
        if j is None:
            return self
        return SymStr(self.chars[:j] + new.chars + self.chars[j + len(old):])

    def startswith(self, p):
        return bool(SymBool(self._match_at(0, p)))

    def endswith(self, p):
        return bool(SymBool(self._match_at(len(self.chars) - len(p), p))) if len(p) <= len(self.chars) else False

    def index(self, sub):
        j = self._find(sub)
        if j is None:
            raise ValueError("substring not found")
        return j

    def isdigit(self):
        if not self.chars:
            return False
        return bool(SymBool(z3.And(*[char_pred(ch, "isdigit") for ch in self.chars])))

    def __vf_join__(self, lit, items):
        if lit != "":
            raise Undecided("join with a separator")
        out = []
        for it in items:
            out += it.chars
        return SymStr(out)


def vf_int(x=0, *a):
    """int(): of an ASCII digit string the decimal value (assumed contract of int(str)); anything else about strings is not modelled"""
    if isinstance(x, SymStr):
        c = cur()
        if not x.chars:
            raise ValueError("invalid literal for int() with base 10: ''")
        iw = proxies.get_iw()
        v = z3.BitVecVal(0, iw)
        for ch in x.chars:
            isd = z3.And(z3.CharToInt(ch) >= 48, z3.CharToInt(ch) <= 57)
            if not c.branch(isd, "ascii-digit"):
                # a character that str.isdigit() accepts but that is no decimal digit (superscripts, circled digits, ...) is never part of an
                # integer literal: int() raises ValueError; for every other non-ASCII-digit character nothing is promised
                if c.branch(z3.And(char_pred(ch, "isdigit"), z3.Not(char_pred(ch, "isdecimal"))), "digit-but-not-decimal"):
                    raise ValueError("invalid literal for int() with base 10")
                raise Undecided("int() of a string with a character that is not an ASCII digit (sign, blank, underscore, other Unicode digits): havoc")
            v = v * 10 + z3.Int2BV(z3.CharToInt(ch) - 48, iw)
        return SymInt(v)
    return proxies.vf_int(x, *a)


def vf_str(x=""):
    """str(): of a non-negative integer its decimal digits (assumed contract of str(int))"""
    if isinstance(x, SymInt):
        c = cur()
        iw = proxies.get_iw()
        if c.branch(x.z < 0, "negative"):
            raise Undecided("str() of a negative symbolic integer")
        nd = 1
        while not c.branch(z3.ULT(x.z, z3.BitVecVal(10 ** nd, iw)), f"digits<={nd}"):
            nd += 1
            if nd > 21:
                raise Undecided("more than 21 digits")
        # contract of str(int) for a non-negative integer with nd digits: characters '0'+d_k with 0 <= d_k <= 9, no leading zero (unless the
        # number is a single digit), and  sum d_k * 10^k  ==  the integer
        chars, digits = [], []
        g = c.ghost
        total = z3.BitVecVal(0, iw)
        for k in range(nd - 1, -1, -1):
            g["strdigit"] = g.get("strdigit", 0) + 1
            d = z3.BitVec(f"digit{g['strdigit']}", iw)
            ch = z3.Const(f"digitchar{g['strdigit']}", z3.CharSort())
            c.assume(z3.And(d >= 0, d <= 9))
            c.assume(z3.CharToInt(ch) == z3.BV2Int(z3.Extract(3, 0, d)) + 48)
            total = total + d * z3.BitVecVal(10 ** k, iw)
            chars.append(ch)
            digits.append(d)
        c.assume(total == x.z)
        if nd > 1:
            c.assume(digits[0] != 0)
        r = SymStr(chars)
        r.digits = digits
        return r
    return str(x)


_cache = {}


def load():
    if "ns" in _cache:
        return _cache["ns"]
    bv = loader.load(BV_PATH, "claripy.backends.backend_concrete.bv")
    st = loader.load(STR_PATH, "claripy.backends.backend_concrete.strings", overrides={"BVV": bv["BVV"]}, extra_shadow={"int": vf_int, "str": vf_str})
    from vf.contracts import gcguard
    z = gcguard.load()
    _cache["ns"] = (st, bv, z["BackendZ3"])
    return _cache["ns"]


def sym_str(name, maxlen):
    c = cur()
    n = c.choose([True] * (maxlen + 1), f"len({name})")
    chars = [z3.Const(f"{name}{i}", z3.CharSort()) for i in range(n)]
    for i, ch in enumerate(chars):
        c.watch[f"{name}[{i}]"] = z3.CharToInt(ch)
    c.describers.append(lambda m, name=name, chars=chars: {name: [int(str(m.eval(z3.CharToInt(ch), model_completion=True)).replace("char.to_int(", "").rstrip(")")
                                                                      if "char.to_int" in str(m.eval(z3.CharToInt(ch), model_completion=True))
                                                                      else str(m.eval(z3.CharToInt(ch), model_completion=True))) for ch in chars]})
    return SymStr(chars)


def sym_bvv(bv, name):
    v = SymInt.fresh(name, 0, (1 << 64) - 1)
    return bv["BVV"](v, 64), z3.Extract(63, 0, v.z)


def _check_int_domain(c, label, r, want, SV, bv):
    """integer-valued / integer-argument operations, reference stated over z3 Ints (the structural obligation z3t.* ties the real translation
    functions to these reference terms)"""
    M64 = (1 << 64) - 1
    if want["kind"] == "int":
        if not isinstance(r, bv["BVV"]) or r.bits != 64:
            c.fail(label + "/type", f"returned {type(r).__name__}")
            return
        k = proxies.concretize(r.value, limit=40, label="folded-index")
        kk = -1 if k == M64 else k
        c.check(label + "/range", 0 <= k <= M64, "BVV value outside 64 bits")
        c.check(label + "/folded-equals-solved", want["ref"] == kk, f"folded to {kk}, the solver-side str.indexof differs")
    elif want["kind"] == "to_int":
        # reference: SMT-LIB str.to_int transcribed (z3 does not decide str.to_int / str.from_int over symbolic characters): the decimal value
        # if the string is non-empty and every character is one of 0..9, otherwise -1; as a 64-bit vector -1 is 2^64-1
        s = want["s"]
        if not isinstance(r, bv["BVV"]) or r.bits != 64:
            c.fail(label + "/type", f"returned {type(r).__name__}")
            return
        alld = z3.And(*[z3.And(z3.CharToInt(ch) >= 48, z3.CharToInt(ch) <= 57) for ch in s.chars]) if s.chars else z3.BoolVal(False)
        if isinstance(r.value, int):
            c.check(label + "/minus-one-only-for-non-numerals", z3.Not(alld) if r.value == M64 else False,
                    f"folded to the constant {r.value} although the string is a decimal numeral (or the constant is not -1)")
        else:
            c.check(label + "/value-only-for-numerals", alld, "a value was computed for a string that is not a decimal numeral")
            iw = proxies.get_iw()
            bvdec = z3.BitVecVal(0, iw)
            for ch in s.chars:
                bvdec = bvdec * 10 + z3.Int2BV(z3.CharToInt(ch) - 48, iw)
            c.check(label + "/folded-is-the-decimal-reading", _bv(r.value) == bvdec, "the folded value is not the decimal reading of the string")
    else:
        # reference: SMT-LIB str.from_int of a non-negative integer: its decimal digits without leading zeros; the argument is the 64-bit vector
        # read as UNSIGNED (bv2nat)
        if not isinstance(r, SV) or not isinstance(r.value, SymStr):
            c.fail(label + "/type", f"returned {type(r).__name__}")
            return
        chars = r.value.chars
        c.check(label + "/digits-only", z3.And(*[z3.And(z3.CharToInt(ch) >= 48, z3.CharToInt(ch) <= 57) for ch in chars]) if chars else False,
                "the folded string is empty or holds a character that is not a decimal digit")
        if len(chars) > 1:
            c.check(label + "/no-leading-zero", z3.CharToInt(chars[0]) != 48, "leading zero")
        iw = proxies.get_iw()
        back = z3.BitVecVal(0, iw)
        ds = getattr(r.value, "digits", None)
        for j, ch in enumerate(chars):
            back = back * 10 + (ds[j] if ds is not None else z3.Int2BV(z3.CharToInt(ch) - 48, iw))
        c.check(label + "/digits-denote-the-unsigned-argument", back == z3.ZeroExt(iw - 64, want["v"]), "the folded digits do not denote the argument read as an unsigned 64-bit integer")


def ob_translation(tier="quick"):
    """z3t: the real BackendZ3._op_raw_* string translations are, term for term, the SMT-LIB functions with the 64-bit <-> integer
    conversions the reference above assumes (structural equality of z3 terms)"""
    st, bv, BZ = load()

    def body(c):
        S, P, Q = z3.String("S"), z3.String("P"), z3.String("Q")
        b, n = z3.BitVec("b", 64), z3.BitVec("n", 64)
        table = {
            "StrConcat": (BZ._op_raw_StrConcat(S, P, Q), z3.Concat(S, P, Q)),
            "StrSubstr": (BZ._op_raw_StrSubstr(b, n, S), z3.SubString(S, z3.BV2Int(b), z3.BV2Int(n))),
            "StrLen": (BZ._op_raw_StrLen(S), z3.Int2BV(z3.Length(S), 64)),
            "StrReplace": (BZ._op_raw_StrReplace(S, P, Q), z3.Replace(S, P, Q)),
            "StrContains": (BZ._op_raw_StrContains(S, P), z3.Contains(S, P)),
            "StrPrefixOf": (BZ._op_raw_StrPrefixOf(P, S), z3.PrefixOf(P, S)),
            "StrSuffixOf": (BZ._op_raw_StrSuffixOf(P, S), z3.SuffixOf(P, S)),
            "StrIndexOf": (BZ._op_raw_StrIndexOf(S, P, b), z3.Int2BV(z3.IndexOf(S, P, z3.BV2Int(b)), 64)),
            "StrToInt": (BZ._op_raw_StrToInt(S), z3.Int2BV(z3.StrToInt(S), 64)),
            "IntToStr": (BZ._op_raw_IntToStr(b), z3.IntToStr(z3.BV2Int(b))),
        }
        for k, (got, want) in table.items():
            c.check(f"z3t.{k}/is-the-smtlib-function", bool(got.eq(want)), f"_op_raw_{k} builds {got}, the reference is {want}")
        return "ok"
    return explore(body, _opts(tier))


OPS = ["StrConcat", "StrSubstr", "StrReplace", "StrLen", "StrContains", "StrPrefixOf", "StrSuffixOf", "StrIndexOf", "StrToInt", "IntToStr", "__eq__", "__ne__"]


def _opts(tier):
    return {"timeout_ms": 30000, "budget_s": 250 if tier == "quick" else 2500, "max_paths": 60000, "max_depth": 4000, "max_failures": 3, "external_timeout_s": 60}


def ob_fold(op, tier="quick", maxlen=2):
    st, bv, BZ = load()
    proxies.set_iw(80)
    SV = st["StringV"]

    def body(c):
        label = f"strings.{op}"
        raw = getattr(BZ, f"_op_raw_{op}", None)
        try:
            if op == "StrConcat":
                a, b, d = sym_str("a", maxlen), sym_str("b", maxlen), sym_str("d", 1)
                r = st[op](SV(a), SV(b), SV(d)); ref = raw(a.term(), b.term(), d.term())
            elif op == "StrSubstr":
                s = sym_str("s", maxlen + 1)
                i, iz = sym_bvv(bv, "start"); n, nz = sym_bvv(bv, "count")
                r = st[op](i, n, SV(s)); ref = raw(iz, nz, s.term())
            elif op == "StrReplace":
                s, p, q = sym_str("s", maxlen + 1), sym_str("p", maxlen), sym_str("q", 1)
                r = st[op](SV(s), SV(p), SV(q)); ref = raw(s.term(), p.term(), q.term())
            elif op == "StrLen":
                s = sym_str("s", maxlen + 1)
                r = st[op](SV(s)); ref = raw(s.term())
            elif op in ("StrContains",):
                s, p = sym_str("s", maxlen + 1), sym_str("p", maxlen)
                r = st[op](SV(s), SV(p)); ref = raw(s.term(), p.term())
            elif op in ("StrPrefixOf", "StrSuffixOf"):
                s, p = sym_str("s", maxlen + 1), sym_str("p", maxlen)
                r = st[op](SV(p), SV(s)); ref = raw(p.term(), s.term())
            elif op == "StrIndexOf":
                s, p = sym_str("s", maxlen + 1), sym_str("p", maxlen)
                i, iz = sym_bvv(bv, "start")
                # Int-domain reference (z3 is weak on bv2int / int2bv): I is the start index as an integer; the folding code only distinguishes
                # the values 0..len(s) and "larger", so I is tied to the 64-bit argument on exactly these cases
                I = z3.Int("start_int")
                c.assume(z3.And(I >= 0, I < (1 << 64)))
                for k in range(len(s) + 2):
                    c.assume((iz == k) == (I == k))
                r = st[op](SV(s), SV(p), i)
                ref_int = z3.IndexOf(s.term(), p.term(), I)
                want = {"kind": "int", "ref": ref_int, "lo": -1, "hi": len(s)}
                ref = None
            elif op == "StrToInt":
                s = sym_str("s", maxlen + 1)
                r = st[op](SV(s))
                want = {"kind": "to_int", "s": s}
                ref = None
            elif op == "IntToStr":
                i, iz = sym_bvv(bv, "value")
                r = st[op](i)
                want = {"kind": "from_int", "v": iz}
                ref = None
            else:
                a, b = sym_str("a", maxlen), sym_str("b", maxlen)
                import operator
                r = getattr(operator, op)(SV(a), SV(b))          # Backend._call falls back to the operator module for __eq__ / __ne__
                ref = (a.term() == b.term()) if op == "__eq__" else (a.term() != b.term())
        except (PathEnd, Undecided):
            raise
        except Exception as ex:  # noqa
            import traceback
            c.fail(label + "/raises", f"{type(ex).__name__}: {ex} :: {traceback.format_exc()[-300:]}", kind="raises")
            return "raised"
        if ref is None:
            if isinstance(r, SV) and isinstance(r.value, str):
                r = SV(SymStr([z3.CharVal(ord(ch)) for ch in r.value]))
            _check_int_domain(c, label, r, want, SV, bv)
            return "ret"
        if isinstance(r, SV) and isinstance(r.value, str):
            r = SV(SymStr([z3.CharVal(ord(ch)) for ch in r.value]))
        if isinstance(r, SV):
            if not isinstance(r.value, SymStr):
                c.fail(label + "/type", f"StringV holds a {type(r.value).__name__}")
                return "ret"
            c.check(label + "/folded-equals-solved", ref == r.value.term(), "the folded string is not what the Z3 translation of the operation denotes")
        elif isinstance(r, bv["BVV"]):
            c.check(label + "/width", r.bits == 64, f"result width {r.bits}")
            vz = _bv(r.value)
            c.check(label + "/range", z3.And(vz >= 0, z3.ULT(vz, z3.BitVecVal(1 << 64, vz.size()))), "BVV value outside 64 bits")
            c.check(label + "/folded-equals-solved", ref == z3.Extract(63, 0, vz), "the folded integer is not what the Z3 translation of the operation denotes")
        elif isinstance(r, (bool, SymBool)):
            c.check(label + "/folded-equals-solved", ref == proxies.zbool(r), "the folded truth value is not what the Z3 translation of the operation denotes")
        else:
            c.fail(label + "/type", f"returned {type(r).__name__}")
        return "ret"
    return explore(body, _opts(tier))


def replay(task, failure):
    """native: fold the operation on the counter-model's concrete strings / integers with the real claripy constructors and compare with Z3's
    evaluation of the real translation on the same constants"""
    import claripy
    op = task["kwargs"]["op"]
    wit = failure.get("witness", {})

    def S(name):
        v = wit.get(name)
        if isinstance(v, list):
            return "".join(chr(int(x)) for x in v)
        return ""
    I = lambda name: int(wit.get(name, 0))
    try:
        if op == "StrConcat":
            e = claripy.StrConcat(claripy.StringV(S("a")), claripy.StringV(S("b")), claripy.StringV(S("d")))
        elif op == "StrSubstr":
            e = claripy.StrSubstr(claripy.BVV(I("start"), 64), claripy.BVV(I("count"), 64), claripy.StringV(S("s")))
        elif op == "StrReplace":
            e = claripy.StrReplace(claripy.StringV(S("s")), claripy.StringV(S("p")), claripy.StringV(S("q")))
        elif op == "StrLen":
            e = claripy.StrLen(claripy.StringV(S("s")))
        elif op == "StrContains":
            e = claripy.StrContains(claripy.StringV(S("s")), claripy.StringV(S("p")))
        elif op in ("StrPrefixOf", "StrSuffixOf"):
            e = getattr(claripy, op)(claripy.StringV(S("p")), claripy.StringV(S("s")))
        elif op == "StrIndexOf":
            e = claripy.StrIndexOf(claripy.StringV(S("s")), claripy.StringV(S("p")), claripy.BVV(I("start"), 64))
        elif op == "StrToInt":
            e = claripy.StrToInt(claripy.StringV(S("s")))
        elif op == "IntToStr":
            e = claripy.IntToStr(claripy.BVV(I("value"), 64))
        else:
            import operator
            e = getattr(operator, op)(claripy.StringV(S("a")), claripy.StringV(S("b")))
    except Exception as ex:  # noqa
        return {"reproduced": True, "text": f"building the folded {op} on {wit} raised {type(ex).__name__}: {ex}"}
    folded = e.args[0] if e.op in ("StringV", "BVV", "BoolV") else None
    if folded is None:
        return {"reproduced": False, "text": f"{op} was not folded: {e}"}
    # solver side: Z3's own evaluation of the real translation (BackendZ3._op_raw_*) on the same constants - not claripy's model-based
    # evaluation, which folds through the concrete backend again
    import z3 as _z
    from claripy.backends.backend_z3 import _z3_unescape_string
    B = claripy.backends.z3
    sv = lambda name: B.convert(claripy.StringV(S(name)))
    bvv = lambda name: _z.BitVecVal(I(name), 64, ctx=B._context)
    if op == "StrConcat":
        t = B._op_raw_StrConcat(sv("a"), sv("b"), sv("d"))
    elif op == "StrSubstr":
        t = B._op_raw_StrSubstr(bvv("start"), bvv("count"), sv("s"))
    elif op == "StrReplace":
        t = B._op_raw_StrReplace(sv("s"), sv("p"), sv("q"))
    elif op == "StrLen":
        t = B._op_raw_StrLen(sv("s"))
    elif op == "StrContains":
        t = B._op_raw_StrContains(sv("s"), sv("p"))
    elif op in ("StrPrefixOf", "StrSuffixOf"):
        t = getattr(B, "_op_raw_" + op)(sv("p"), sv("s"))
    elif op == "StrIndexOf":
        t = B._op_raw_StrIndexOf(sv("s"), sv("p"), bvv("start"))
    elif op == "StrToInt":
        t = B._op_raw_StrToInt(sv("s"))
    elif op == "IntToStr":
        t = B._op_raw_IntToStr(bvv("value"))
    else:
        t = (sv("a") == sv("b")) if op == "__eq__" else (sv("a") != sv("b"))
    t = _z.simplify(t)
    if _z.is_string_value(t):
        solved = _z3_unescape_string(t.as_string())
    elif _z.is_bv_value(t):
        solved = t.as_long()
    elif _z.is_true(t) or _z.is_false(t):
        solved = _z.is_true(t)
    else:
        return {"reproduced": False, "text": f"Z3 did not evaluate {t} to a value"}
    return {"reproduced": solved != folded, "text": f"{op} on {({k: v for k, v in wit.items() if not k.endswith(']')})}: claripy folds it to {folded!r}, Z3 evaluates the translated term to {solved!r}"}
