"""C23 lifting lemmas for region value sets: the REAL ValueSet class (claripy/backends/backend_vsa/valueset.py, re-loaded from
/repo on every run, `StridedInterval` bound to the abstract-value contract of vf/contracts/absval.py) is executed on value sets whose
regions hold ARBITRARY member sets, and z3 proves per region that every concrete result of member operands is in the result.

gamma_r(VS) = gamma(VS.regions[r]) if r in VS.regions else {}.   A lifted operation that returns a plain interval (documented for
`&` with a small constant, `-` between two value sets, extract) is judged against that interval.
"""
from __future__ import annotations

import z3

from vf.engine import paths, proxies
from vf.engine.paths import cur, explore, Undecided
from vf.engine.proxies import SymInt, SymBool, _bv
from vf.contracts import absval, vsaops
from vf.contracts.absval import REF2

REGIONS = ["global", "stack_1", "heap_2"]
KEYSETS = [(), ("global",), ("stack_1",), ("global", "stack_1"), ("stack_1", "heap_2")]


def _opts(tier, **kw):
    o = {"timeout_ms": 20000 if tier == "quick" else 120000, "budget_s": 200 if tier == "quick" else 2000,
         "max_paths": 40000, "max_depth": 20000, "max_failures": 2}
    o.update(kw)
    return o


def sym_vs(name, w, keys=None, through_api=True):
    """an arbitrary value set: the region set is chosen from KEYSETS, every region holds an arbitrary non-empty member set; it is built
    through the real `_set_si` so that the aggregate `_si` and the base addresses are what the real code maintains"""
    c = cur()
    VS = vsaops.load_vs()["ValueSet"]
    if keys is None:
        keys = KEYSETS[c.choose([True] * len(KEYSETS), name + "-regions")]
    vs = VS(bits=w, name=name)
    for r in keys:
        a = absval.sym(f"{name}_{r}", w, nonempty=True)
        base = absval.load()(bits=w, stride=0, lower_bound=0, upper_bound=0)
        vs._set_si(r, base, a)
    return vs


def gamma_r(res, r):
    """the abstract value that must contain region r's results (None = nothing there)"""
    CSI = absval.load()
    VS = vsaops.load_vs()["ValueSet"]
    if isinstance(res, VS):
        return res.regions.get(r)
    if isinstance(res, CSI):
        return res
    return None


def _contained(c, label, res, r, v, detail):
    g = gamma_r(res, r)
    if g is None:
        c.fail(label, f"{detail}: region {r!r} is missing from the result ({type(res).__name__})")
        return
    if g._bits != v.size():
        c.fail(label + "/bits", f"result width {g._bits} != {v.size()}")
        return
    c.watch["ref"] = v
    c.watch["result_mask"] = g._mask
    c.ghost["region"] = r
    c.check(label, absval.contains(g, v), detail)


def _run(c, label, f):
    from claripy.backends.backend_vsa.errors import ClaripyVSAError
    try:
        return True, f()
    except (paths.PathEnd, paths.Undecided):
        raise
    except NotImplementedError:
        c.check(label + "/refusal", True, "NotImplementedError: no result, nothing excluded")
        return False, "refused"
    except Exception as e:  # noqa
        import traceback
        tb = traceback.extract_tb(e.__traceback__)
        where = next((f"{fr.name}:{fr.lineno}" for fr in reversed(tb) if "valueset" in fr.filename), "?")
        c.fail(label + "/raises", f"{type(e).__name__}: {e} at {where}", kind="raises")
        return False, "raised"


BIN_SI = {"__add__": "add", "__radd__": "add", "__sub__": "sub", "__mod__": "__mod__", "__and__": "bitwise_and", "LShR": "rshift_logical"}


def ob_vs_si(op, w, tier="quick"):
    """value set (op) interval, per region"""
    proxies.set_iw(3 * w + 8)

    def body(c):
        vs = sym_vs("vs", w)
        o = absval.sym("o", w, nonempty=True)
        y = absval.sym_member("y", o)
        if op == "__mod__":
            c.assume(y != 0)
        if not vs.regions:
            ok, res = _run(c, op, lambda: getattr(vs, op)(o))
            c.check(op + "/empty", True, "no region, no member")
            return "empty"
        r = list(vs.regions)[c.choose([True] * len(vs.regions), "region")]
        x = absval.sym_member("x", vs.regions[r])
        ok, res = _run(c, op, lambda: getattr(vs, op)(o))
        if not ok:
            return res
        ref = {"add": x + y, "sub": x - y, "__mod__": z3.URem(x, y), "bitwise_and": x & y, "rshift_logical": z3.LShR(x, y)}[BIN_SI[op]]
        _contained(c, f"{op}/gamma", res, r, ref, f"region {r}: the result of member operands is not in the result")
        return "answered:" + type(res).__name__
    return explore(body, _opts(tier))


def ob_vs_vs(op, w, tier="quick"):
    """value set (op) value set: union / widen contain both operands per region, intersection contains the common members per region,
    `-` of two value sets over the same regions contains every same-region difference, concat pairs same-region members"""
    proxies.set_iw(3 * w + 8)

    def body(c):
        a = sym_vs("a", w)
        b = sym_vs("b", w)
        keys = sorted(set(a.regions) | set(b.regions))
        if not keys:
            ok, res = _run(c, op, lambda: getattr(a, op)(b))
            c.check(op + "/empty", True, "no region, no member")
            return "empty"
        r = keys[c.choose([True] * len(keys), "region")]
        if op in ("union", "widen"):
            side = c.choose([True, True], "member-of")
            src = (a, b)[side]
            if r not in src.regions:
                raise paths.PathEnd()
            v = absval.sym_member("x", src.regions[r])
        elif op == "intersection":
            if r not in a.regions or r not in b.regions:
                raise paths.PathEnd()
            v = absval.sym_member("x", a.regions[r])
            c.assume(absval.contains(b.regions[r], v))
            if not c.path_feasible():
                raise paths.PathEnd()
        elif op in ("__sub__", "concat"):
            if r not in a.regions or r not in b.regions:
                raise paths.PathEnd()
            if op == "concat" and set(a.regions) != set(b.regions):
                raise paths.PathEnd()          # requires: same regions (get_si of a missing region is None)
            x = absval.sym_member("x", a.regions[r])
            y = absval.sym_member("y", b.regions[r])
            v = (x - y) if op == "__sub__" else z3.Concat(x, y)
        else:
            raise Undecided(op)
        ok, res = _run(c, op, lambda: getattr(a, op)(b))
        if not ok:
            return res
        _contained(c, f"{op}[vs]/gamma", res, r, v, f"region {r}: a member result is not in the result")
        return "answered:" + type(res).__name__
    return explore(body, _opts(tier))


def ob_vs_join_si(op, w, tier="quick"):
    """union / widen / intersection of a value set with a plain interval (applied to every region)"""
    proxies.set_iw(3 * w + 8)

    def body(c):
        a = sym_vs("a", w)
        o = absval.sym("o", w)
        if not a.regions:
            raise paths.PathEnd()
        r = list(a.regions)[c.choose([True] * len(a.regions), "region")]
        v = z3.BitVec("x", w)
        c.watch["x"] = v
        if op == "intersection":
            c.assume(z3.And(absval.contains(a.regions[r], v), absval.contains(o, v)))
        else:
            c.assume(z3.Or(absval.contains(a.regions[r], v), absval.contains(o, v)))
        if not c.path_feasible():
            raise paths.PathEnd()
        ok, res = _run(c, op, lambda: getattr(a, op)(o))
        if not ok:
            return res
        _contained(c, f"{op}[si]/gamma", res, r, v, f"region {r}: a member is not in the result")
        return "answered"
    return explore(body, _opts(tier))


def ob_vs_merge(method, w, tier="quick"):
    fn = method
    """_merge_si / _set_si / copy keep what was there (merge) and contain what is put in, per region; other regions are untouched"""
    proxies.set_iw(3 * w + 8)

    def body(c):
        a = sym_vs("a", w)
        before = dict(a.regions)
        r = REGIONS[c.choose([True] * len(REGIONS), "into-region")]
        s = absval.sym("s", w, nonempty=True)
        base = SymInt.fresh("base", 0, (1 << w) - 1) if c.choose([True, True], "base-kind") == 0 else absval.sym("base_si", w, nonempty=True)
        tgt = a.copy() if fn == "copy" else a
        if fn != "copy":
            ok, res = _run(c, fn, lambda: getattr(tgt, fn)(r, base, s))
            if not ok:
                return res
        q = REGIONS[c.choose([True] * len(REGIONS), "observe-region")]
        v = z3.BitVec("x", w)
        c.watch["x"] = v
        want = []
        if q in before and (fn != "_set_si" or q != r):
            want.append(absval.contains(before[q], v))
        if fn != "copy" and q == r:
            want.append(absval.contains(s, v))
        if not want:
            c.check(fn + "/frame", (q in tgt.regions) == (q in before) or q == r, f"region {q} appeared or vanished")
            return "frame"
        c.assume(z3.Or(*want))
        if not c.path_feasible():
            raise paths.PathEnd()
        _contained(c, f"{fn}/gamma", tgt, q, v, f"region {q}: a member is lost")
        return "answered"
    return explore(body, _opts(tier))


def ob_vs_query(q, w, tier="quick"):
    """eval / cardinality / min / max / extract are consistent with the members"""
    proxies.set_iw(3 * w + 8)
    iw = proxies.get_iw()
    from claripy.backends.backend_vsa.errors import ClaripyVSAOperationError

    def body(c):
        a = sym_vs("a", w)
        regs = list(a.regions)
        allmem = lambda v: z3.Or(*[absval.contains(a.regions[r], v) for r in regs]) if regs else z3.BoolVal(False)
        if q.startswith("eval"):
            n = int(q[4:])
            ok, res = _run(c, q, lambda: a.eval(n))
            if not ok:
                return res
            vals = [z3.Extract(w - 1, 0, _bv(v)) for v in res]
            for i, v in enumerate(vals):
                c.check(f"{q}/members-only", allmem(v), f"value {i} returned by eval is in no region")
            if len(vals) < n and regs:
                r = regs[c.choose([True] * len(regs), "region")]
                x = absval.sym_member("x", a.regions[r])
                c.check(f"{q}/complete", z3.Or(*[x == v for v in vals]) if vals else False, "eval returned fewer than n values and misses a member")
            return f"answered{len(vals)}"
        if q == "cardinality":
            ok, res = _run(c, q, lambda: a.cardinality)
            if not ok:
                return res
            total = z3.Sum([absval.popcount(a.regions[r]._mask, iw) for r in regs]) if regs else z3.BitVecVal(0, iw)
            c.check("cardinality/sum", _bv(res) == total, "cardinality differs from the number of (region, offset) members")
            return "answered"
        if q in ("min", "max"):
            signed = c.choose([True, True], "signed") == 1
            try:
                res = getattr(a, q)(signed=signed)
            except ClaripyVSAOperationError:
                c.check(q + "/refusal", len(regs) != 1, "refused although the value set has exactly one region")
                return "refused"
            if len(regs) != 1:
                c.fail(q + "/defined", f"{q} answered for a value set with {len(regs)} regions")
                return "answered"
            x = absval.sym_member("x", a.regions[regs[0]])
            rz = _bv(res)
            xz = z3.SignExt(iw - w, x) if signed else z3.ZeroExt(iw - w, x)
            c.check(q + "/bound", (rz <= xz) if q == "min" else (rz >= xz), f"{q} excludes a member")
            c.check(q + "/attained", absval.contains(a.regions[regs[0]], z3.Extract(w - 1, 0, rz)), f"{q} is not a member")
            return "answered"
        if q == "extract":
            pairs = [(h, l) for h in range(w) for l in range(h + 1)]
            h, l = pairs[c.choose([True] * len(pairs), "bounds")]
            if not regs:
                raise paths.PathEnd()
            r = regs[c.choose([True] * len(regs), "region")]
            x = absval.sym_member("x", a.regions[r])
            ok, res = _run(c, q, lambda: a.extract(h, l))
            if not ok:
                return res
            _contained(c, "extract/gamma", res, r, z3.Extract(h, l, x), f"region {r}: extracted bits of a member are not in the result")
            return "answered:" + type(res).__name__
        if q == "concat[si]":
            o = absval.sym("o", 1, nonempty=True)
            if not regs:
                raise paths.PathEnd()
            r = regs[c.choose([True] * len(regs), "region")]
            x = absval.sym_member("x", a.regions[r])
            y = absval.sym_member("y", o)
            ok, res = _run(c, q, lambda: a.concat(o))
            if not ok:
                return res
            _contained(c, "concat[si]/gamma", res, r, z3.Concat(x, y), f"region {r}: the concatenation of members is not in the result")
            return "answered"
        raise Undecided(q)
    return explore(body, _opts(tier))


# ---- native replay: the same statement on real value sets over a pool of plain intervals -------------------------

def replay(task, failure):
    import itertools
    from claripy.backends.backend_vsa import StridedInterval as SI, ValueSet as VS
    from vf.contracts.si import py_members as mem
    fn, kw = task["fn"], task["kwargs"]
    w = kw.get("w", 2)
    pool = vsaops._pool(w)
    M = 1 << w

    def mkvs(assign):
        vs = VS(bits=w)
        for r, s in assign.items():
            vs._set_si(r, 0, s.copy())
        return vs

    def g(res, r):
        if isinstance(res, VS):
            return mem(res.regions[r]) if r in res.regions else None
        return mem(res) if isinstance(res, SI) else None

    def keysets():
        for ks in KEYSETS:
            for combo in itertools.product(pool[:: max(1, len(pool) // 6)], repeat=len(ks)):
                yield dict(zip(ks, combo))
    try:
        if fn == "ob_vs_si":
            op = kw["op"]
            for assign in keysets():
                for o in pool:
                    vs = mkvs(assign)
                    try:
                        res = getattr(vs, op)(o)
                    except NotImplementedError:
                        continue
                    for r, s in assign.items():
                        got = g(res, r)
                        for x in mem(s):
                            for y in mem(o):
                                if op == "__mod__" and y == 0:
                                    continue
                                v = REF2[BIN_SI[op]](x, y, w)
                                if got is None or v not in got:
                                    return {"reproduced": True, "text": f"ValueSet{ {k: str(v_) for k, v_ in assign.items()} }.{op}({o}) = {res}: region {r}: {x} {op} {y} = {v} is not in the result"}
        elif fn in ("ob_vs_vs", "ob_vs_join_si"):
            op = kw["op"]
            for A in keysets():
                others = list(keysets()) if fn == "ob_vs_vs" else pool
                for B in others:
                    a = mkvs(A)
                    b = mkvs(B) if fn == "ob_vs_vs" else B
                    if op == "concat" and set(A) != set(B):
                        continue
                    try:
                        res = getattr(a, op)(b)
                    except NotImplementedError:
                        continue
                    for r in set(A) | (set(B) if fn == "ob_vs_vs" else set()):
                        ma = mem(A[r]) if r in A else set()
                        mb = (mem(B[r]) if r in B else set()) if fn == "ob_vs_vs" else mem(B)
                        if op in ("union", "widen"):
                            want = ma | mb if (fn == "ob_vs_vs" or r in A) else set()
                        elif op == "intersection":
                            want = ma & mb
                        elif op == "__sub__":
                            want = {(x - y) % M for x in ma for y in mb}
                        else:
                            want = {(x << w) | y for x in ma for y in mb}
                        got = g(res, r)
                        if want and (got is None or not want <= got):
                            return {"reproduced": True, "text": f"ValueSet{ {k: str(v) for k, v in A.items()} }.{op}({B if fn != 'ob_vs_vs' else {k: str(v) for k, v in B.items()}}) = {res}: region {r} must contain {sorted(want)}, result has {sorted(got) if got is not None else None}"}
    except Exception as e:  # noqa
        import traceback
        return {"reproduced": True, "text": f"native run raised {type(e).__name__}: {e}", "trace": traceback.format_exc()[-1500:]}
    return {"reproduced": False, "text": "no value set over the pool of plain intervals reproduces the failed obligation natively"}


# ---- discrete strided-interval sets --------------------------------------------------------------------------------

DSIS_PATH = "claripy/backends/backend_vsa/discrete_strided_interval_set.py"
_dcache = {}


def load_dsis():
    """discrete_strided_interval_set.py re-loaded from /repo; its base class and its members are the abstract-value contract"""
    if "ns" in _dcache:
        return _dcache["ns"]
    from vf.engine import loader
    import types
    CSI = absval.load()
    vs = vsaops.load_vs()
    # the module does `from .strided_interval import StridedInterval` and subclasses it at import time, so the contract class has to be
    # in place while the module body runs: a stand-in package module is offered to the import system for the duration of the load
    import sys
    real_mod = sys.modules.get("claripy.backends.backend_vsa.strided_interval")
    fake = types.ModuleType("claripy.backends.backend_vsa.strided_interval")
    fake.__dict__.update({k: v for k, v in real_mod.__dict__.items() if not k.startswith("__")})
    fake.StridedInterval = CSI
    sys.modules["claripy.backends.backend_vsa.strided_interval"] = fake
    try:
        ns = loader.load(DSIS_PATH, "claripy.backends.backend_vsa.discrete_strided_interval_set", overrides={"ValueSet": vs["ValueSet"]})
    finally:
        sys.modules["claripy.backends.backend_vsa.strided_interval"] = real_mod
    assert ns["StridedInterval"] is CSI and issubclass(ns["DiscreteStridedIntervalSet"], CSI)
    D = ns["DiscreteStridedIntervalSet"]
    # _update_bounds book-keeps the hull [_lower_bound, _upper_bound] of the set; the hull never enters a member set.  In the lifting
    # lemmas it is answered by its frame contract (reads the argument, writes only these two fields of self) - otherwise every
    # comparison of two representation-dependent bounds doubles the number of paths; the frame itself is obligation dsis._update_bounds/frame
    ns["__real_update_bounds__"] = D.__dict__["_update_bounds"]

    def _update_bounds_contract(self, val):
        if not isinstance(val, CSI):
            raise ns["ClaripyVSAOperationError"](f"Unsupported operand type {type(val)}.")
    D._update_bounds = _update_bounds_contract
    _dcache["ns"] = ns
    return ns


def sym_dsis(name, w, n=2, max_cardinality=None):
    c = cur()
    D = load_dsis()["DiscreteStridedIntervalSet"]
    members = [absval.sym(f"{name}{i}", w, nonempty=True) for i in range(n)]
    return D(bits=w, si_set=set(members), max_cardinality=max_cardinality), members


def dsis_contains(res, v):
    """z3 Bool: v in gamma(res) for a discrete set (union of its members) or a plain abstract value"""
    D = load_dsis()["DiscreteStridedIntervalSet"]
    if isinstance(res, D):
        ms = list(res._si_set)
        return z3.Or(*[dsis_contains(m, v) for m in ms]) if ms else z3.BoolVal(False)
    return absval.contains(res, v)


DSIS_BIN = {"__add__": lambda x, y: x + y, "__sub__": lambda x, y: x - y, "__and__": lambda x, y: x & y, "__or__": lambda x, y: x | y,
            "__xor__": lambda x, y: x ^ y, "__floordiv__": z3.UDiv, "__mod__": z3.URem, "__lshift__": lambda x, y: x << y,
            "__rshift__": lambda x, y: x >> y}
DSIS_UN = {"__neg__": lambda x: -x, "__invert__": lambda x: ~x}
DSIS_CMP = {"__eq__": lambda x, y: x == y, "__ne__": lambda x, y: x != y, "UGT": z3.UGT, "UGE": z3.UGE, "ULT": z3.ULT, "ULE": z3.ULE}


def ob_dsis(op, w, tier="quick", other="si"):
    """lifted operation on a discrete set {a0, a1}: contains the pointwise results of every member of every member interval"""
    proxies.set_iw(3 * w + 10)
    CSI = absval.load()
    from claripy.backends.backend_vsa.bool_result import BoolResult

    def body(c):
        # the cardinality limit above which the set collapses into one interval: the default (256: never reached here) or a small one, so that
        # a union / intersection collapses half-way through its members
        mc = [None, 1, 3][c.choose([True] * 3, "max_cardinality")] if op in ("union", "intersection") else None
        d, ms = sym_dsis("a", w, max_cardinality=mc)
        i = c.choose([True] * len(ms), "member-interval")
        x = absval.sym_member("x", ms[i])
        if op in DSIS_UN:
            ok, res = _run(c, op, lambda: getattr(d, op)())
            if not ok:
                return res
            ref = DSIS_UN[op](x)
        elif op in ("extract", "zero_extend", "sign_extend"):
            if op == "extract":
                pairs = [(h, l) for h in range(w) for l in range(h + 1)]
                h, l = pairs[c.choose([True] * len(pairs), "bounds")]
                ok, res = _run(c, op, lambda: d.extract(h, l))
                ref = z3.Extract(h, l, x)
            else:
                n = w + c.choose([True] * 3, "extend-to")
                ok, res = _run(c, op, lambda: getattr(d, op)(n))
                ref = (z3.ZeroExt if op == "zero_extend" else z3.SignExt)(n - w, x) if n > w else x
            if not ok:
                return res
        else:
            if other == "si":
                o = absval.sym("o", w, nonempty=True)
                y = absval.sym_member("y", o)
            elif other == "int":
                k = SymInt.fresh("k", 0, (1 << w) - 1)
                o, y = k, z3.Extract(w - 1, 0, k.z)
            else:
                o, os_ = sym_dsis("b", w, max_cardinality=mc)
                j = c.choose([True] * len(os_), "other-member-interval")
                y = absval.sym_member("y", os_[j])
            if op in ("__floordiv__", "__mod__"):
                c.assume(y != 0)
            if op in ("union", "intersection"):
                v = z3.BitVec("v", w)
                c.watch["v"] = v
                inb = dsis_contains(o, v) if not isinstance(o, SymInt) else v == y
                ina = dsis_contains(d, v)
                c.assume(z3.And(ina, inb) if op == "intersection" else z3.Or(ina, inb))
                if not c.path_feasible():
                    raise paths.PathEnd()
                ref = v
            elif op == "concat":
                ref = z3.Concat(x, y)
            elif op in DSIS_CMP:
                ref = DSIS_CMP[op](x, y)
            else:
                ref = DSIS_BIN[op](x, y)
            ok, res = _run(c, op, lambda: getattr(d, op)(o))
            if not ok:
                return res
        if z3.is_bool(ref):
            if not isinstance(res, BoolResult):
                c.fail(op + "/type", f"comparison returned {type(res).__name__}")
                return "answered"
            c.check(f"{op}/gamma", z3.Or(*[ref == z3.BoolVal(bool(t)) for t in res.value]) if res.value else False,
                    f"the truth value of member operands is not in the result {res.value}")
            return "answered"
        if not isinstance(res, CSI):
            c.fail(op + "/type", f"returned {type(res).__name__}")
            return "answered"
        if res._bits != ref.size():
            c.fail(op + "/bits", f"result width {res._bits} != {ref.size()}")
            return "answered"
        c.watch["ref"] = ref
        c.check(f"{op}/gamma", dsis_contains(res, ref), "the result of member operands is in none of the result's intervals")
        return "answered:" + type(res).__name__
    return explore(body, _opts(tier))


def ob_dsis_query(q, w, tier="quick"):
    """eval returns members only (and all of them when fewer than n come back); cardinality is documented as an over-approximation;
    collapse / normalize / copy keep every member"""
    proxies.set_iw(3 * w + 10)
    iw = proxies.get_iw()

    def body(c):
        d, ms = sym_dsis("a", w)
        i = c.choose([True] * len(ms), "member-interval")
        x = absval.sym_member("x", ms[i])
        if q.startswith("eval"):
            n = int(q[4:])
            ok, res = _run(c, q, lambda: d.eval(n))
            if not ok:
                return res
            vals = [z3.Extract(w - 1, 0, _bv(v)) for v in res]
            for k, v in enumerate(vals):
                c.check(f"{q}/members-only", dsis_contains(d, v), f"value {k} returned by eval is not a member")
            if len(vals) < n:
                c.check(f"{q}/complete", z3.Or(*[x == v for v in vals]) if vals else False, "eval returned fewer than n values and misses a member")
            return f"answered{len(vals)}"
        if q == "cardinality":
            ok, res = _run(c, q, lambda: d.cardinality)
            if not ok:
                return res
            allm = ms[0]._mask | ms[1]._mask
            c.check("cardinality/not-below", _bv(res) >= absval.popcount(allm, iw), "cardinality is below the number of members")
            return "answered"
        if q in ("collapse", "normalize", "copy"):
            ok, res = _run(c, q, lambda: getattr(d, q)())
            if not ok:
                return res
            c.check(f"{q}/gamma", dsis_contains(res, x), f"{q} lost a member")
            return "answered"
        raise Undecided(q)
    return explore(body, _opts(tier))


def ob_dsis_history(w=2, tier="quick", query="collapse"):
    """a discrete set answers for its CURRENT members, whatever it was asked before: the set is queried (collapse / a comparison, which
    collapses), then joined with another interval, then queried again - the second answer must cover the members that the join added.
    (The lifting lemmas above run each operation on a freshly built set; derived state carried over by copy() would escape them.)"""
    proxies.set_iw(3 * w + 10)
    from claripy.backends.backend_vsa.bool_result import BoolResult

    def body(c):
        d, ms = sym_dsis("a", w)
        o = absval.sym("o", w, nonempty=True)
        y = absval.sym_member("y", o)
        ok, _ = _run(c, "first-" + query, (lambda: d.collapse()) if query == "collapse" else (lambda: d.ULT(absval.sym("k", w, nonempty=True))))
        if not ok:
            return "refused-first"
        ok, u = _run(c, "union", lambda: d.union(o))
        if not ok:
            return u
        if query == "collapse":
            ok, res = _run(c, "collapse-after-union", lambda: u.collapse() if hasattr(u, "collapse") else u)
            if not ok:
                return res
            c.check("history/collapse-after-union/gamma", dsis_contains(res, y), "collapse() of the union does not contain a member that the union added (stale derived state)")
        else:
            k = absval.sym("k2", w, nonempty=True)
            kv = absval.sym_member("kv", k)
            ok, res = _run(c, "ULT-after-union", lambda: u.ULT(k))
            if not ok:
                return res
            if isinstance(res, BoolResult):
                vals = tuple(res.value)
                truth = z3.ULT(y, kv)
                c.check("history/ULT-after-union/gamma", z3.Or(*[truth == z3.BoolVal(bool(v)) for v in vals]) if vals else False,
                        f"the comparison of the union answers {vals}, a member that the union added says otherwise")
        return "answered"
    return explore(body, _opts(tier))


def replay_history(task=None, failure=None):
    """native: {1, 3} as a discrete set is collapsed (or compared), joined with {200}, and asked again"""
    from claripy.backends.backend_vsa import StridedInterval as SI
    from claripy.backends.backend_vsa.discrete_strided_interval_set import DiscreteStridedIntervalSet as DS
    mk = lambda v: SI(bits=8, stride=0, lower_bound=v, upper_bound=v)  # noqa
    d = DS(bits=8, si_set={mk(1), mk(3)})
    first = d.collapse()
    d.ULT(mk(5))
    u = d.union(mk(200))
    col = u.collapse() if hasattr(u, "collapse") else u
    cmp = u.ULT(mk(5))
    lost = not col.solution(200)
    wrong = tuple(cmp.value) == (True,)
    return {"reproduced": bool(lost or wrong), "text": f"DSIS{{1, 3}}: collapse() = {first}; union with 200 = {u}; collapse() of the union = {col}"
            + (" - 200 is not in it" if lost else "") + f"; (union <u 5) = {tuple(cmp.value)}" + (" although 200 is a member" if wrong else "")}


def ob_dsis_frame(w=2, tier="quick"):
    """the real DiscreteStridedIntervalSet._update_bounds writes nothing but self._lower_bound / self._upper_bound"""
    proxies.set_iw(3 * w + 10)
    ns = load_dsis()

    def body(c):
        d, ms = sym_dsis("a", w)
        o = absval.sym("o", w, nonempty=True)
        before = {k: v for k, v in d.__dict__.items()}
        set_before = set(d._si_set)
        ns["__real_update_bounds__"](d, o)
        after = d.__dict__
        changed = {k for k in set(before) | set(after) if before.get(k, None) is not after.get(k, None)}
        c.check("_update_bounds/frame", changed <= {"_lower_bound", "_upper_bound"} and set(d._si_set) == set_before,
                f"_update_bounds changed {sorted(changed)}")
        return "ok"
    return explore(body, _opts(tier))


def ob_canary(tier="quick"):
    """vacuity guard: wrong postconditions on the same harnesses must FAIL"""
    proxies.set_iw(16)
    w = 2
    bad = []

    def expect_fail(name, body):
        r = explore(body, _opts(tier, max_failures=1))
        if r.status != "violated":
            bad.append(f"{name}: {r.status}")

    def c1(c):    # value set + interval claimed to be the difference
        vs = sym_vs("vs", w, keys=("global", "stack_1"))
        o = absval.sym("o", w, nonempty=True)
        x = absval.sym_member("x", vs.regions["stack_1"])
        y = absval.sym_member("y", o)
        _contained(c, "canary", vs + o, "stack_1", x - y, "")

    def c2(c):    # union must not be required to keep regions apart: a member of region global is not promised in region stack_1
        a = sym_vs("a", w, keys=("global",))
        b = sym_vs("b", w, keys=("stack_1",))
        x = absval.sym_member("x", a.regions["global"])
        _contained(c, "canary", a.union(b), "stack_1", x, "")

    def c3(c):    # discrete set: the result of + is not promised to contain the operands themselves
        d, ms = sym_dsis("a", w)
        o = absval.sym("o", w, nonempty=True)
        x = absval.sym_member("x", ms[0])
        c.check("canary", dsis_contains(d + o, x), "")

    def c4(c):    # discrete set negation is not the complement
        d, ms = sym_dsis("a", w)
        x = absval.sym_member("x", ms[1])
        c.check("canary", dsis_contains(-d, ~x), "")

    for n, b_ in (("vs-add-vs-sub", c1), ("vs-union-regions", c2), ("dsis-add-identity", c3), ("dsis-neg-vs-not", c4)):
        expect_fail(n, b_)

    def body(c):
        c.check("canaries/all-fail", not bad, "canaries that did not fail: " + "; ".join(bad))
        return "ok"
    return explore(body, _opts(tier))


def replay_dsis_setop(task, failure):
    """native: union / intersection of two real DiscreteStridedIntervalSets of two members each, members from a pool of intervals of the task's
    width, with the default and with small cardinality limits (so that the result collapses half-way): every common / either member must be in
    the result"""
    import itertools
    import logging
    from claripy.backends.backend_vsa import StridedInterval as SI, DiscreteStridedIntervalSet as D
    from vf.contracts.si import py_members as mem
    logging.getLogger("claripy").setLevel(logging.CRITICAL)
    kw = task["kwargs"]
    op, w, other = kw["op"], kw.get("w", 2), kw.get("other", "si")
    pool = vsaops._pool(w)
    pool = pool[:: max(1, len(pool) // 7)]

    def members(r):
        if isinstance(r, D):
            return set().union(*[mem(x) for x in r._si_set]) if r._si_set else set()
        return mem(r)
    for mc in (1, 3, None):
        for a0, a1 in itertools.combinations(pool, 2):
            for b in (itertools.combinations(pool, 2) if other == "dsis" else [(x,) for x in pool]):
                d = D(bits=w, si_set={a0.copy(), a1.copy()}, max_cardinality=mc)
                o = D(bits=w, si_set={x.copy() for x in b}, max_cardinality=mc) if other == "dsis" else b[0].copy()
                A, B = mem(a0) | mem(a1), set().union(*[mem(x) for x in b])
                try:
                    r = getattr(d, op)(o)
                except Exception as ex:  # noqa
                    return {"reproduced": True, "text": f"DSIS{{{a0}, {a1}}} (max_cardinality={mc}).{op}({[str(x) for x in b]}) raises {type(ex).__name__}: {ex}"}
                want = (A | B) if op == "union" else (A & B)
                lost = want - members(r)
                if lost:
                    return {"reproduced": True, "text": f"DSIS{{{a0}, {a1}}} (max_cardinality={mc}).{op}(DSIS{[str(x) for x in b]}) = {r}: loses {sorted(lost)}"}
    return {"reproduced": False, "text": "no native reproducer in the pool"}
