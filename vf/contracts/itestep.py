"""excavate_ite / burrow_ite: the per-node step of the explicit-stack traversal, validated for EVERY combination of operand kinds
(C08, C24 - the VSA backend converts `excavate_ite(e)`, not `e`).

`_excavate_ite` handles a node only after its operands; what it does with the node depends on (a) the node's operation, (b) which
operands surfaced as `If`, and (c) how their conditions relate to the first one (`is cond`, `is ~cond`, anything else) - never on what
is inside the branches.  For each operation of a stated list and each arity up to a bound, every assignment of operand kinds
    leaf | If(c,..) | If(~c,..) | If(d,..) | op(If(c,..), leaf)  (an operand whose If only surfaces through the recursion)
is built from free variables with the real public constructors, the REAL `claripy.excavate_ite` (and `burrow_ite`) is run, and z3 proves
that the result is equivalent to the input for all assignments (translation validation of the real output; the reference is the Z3
translation of the input expression, which C01/C09 tie to the SMT-LIB meaning).  Complete for one level of nesting up to the stated
arity; the lift to arbitrary trees is the structural induction of DESIGN.md section 3 (C24), stated, not mechanised.
"""
from __future__ import annotations

import itertools
import operator
import time
from functools import reduce

from vf.engine import paths as _paths

KINDS = ["leaf", "ifc", "ifnc", "ifd", "nested"]
BV_OPS = {"__add__": operator.add, "__sub__": operator.sub, "__mul__": operator.mul, "__xor__": operator.xor, "__or__": operator.or_, "__and__": operator.and_}
BIN_ONLY = {"__floordiv__": operator.floordiv, "__lshift__": operator.lshift, "LShR": None, "__rshift__": operator.rshift, "SGT": None, "ULE": None, "__eq__": operator.eq,
            "__ne__": operator.ne}


def _build(op, combo, w=4):
    import claripy
    c, d = claripy.BoolS("c", explicit_name=True), claripy.BoolS("d", explicit_name=True)
    boolean = op in ("And", "Or", "Not")
    mk = (lambda n: claripy.BoolS(n, explicit_name=True)) if boolean else (lambda n: claripy.BVS(n, w, explicit_name=True))
    args = []
    for i, k in enumerate(combo):
        t, f, x = mk(f"t{i}"), mk(f"f{i}"), mk(f"x{i}")
        if k == "leaf":
            a = x
        elif k == "ifc":
            a = claripy.If(c, t, f)
        elif k == "ifnc":
            a = claripy.If(~c, t, f)
        elif k == "ifd":
            a = claripy.If(d, t, f)
        else:
            a = (claripy.And(claripy.If(c, t, f), x) if boolean else claripy.If(c, t, f) ^ x)
        args.append(a)
    if op in BV_OPS:
        return reduce(BV_OPS[op], args)
    if op == "Concat":
        return claripy.Concat(*args)
    if op in ("And", "Or"):
        return getattr(claripy, op)(*args)
    if op == "Not":
        return claripy.Not(args[0])
    if op in ("__neg__", "__invert__"):
        return (-args[0]) if op == "__neg__" else (~args[0])
    if op == "Extract":
        return args[0][w - 2:1]
    if op == "ZeroExt":
        return claripy.ZeroExt(2, args[0])
    if op in ("LShR", "SGT", "ULE"):
        return getattr(claripy, op)(args[0], args[1])
    if op == "If":
        return claripy.If(claripy.If(c, claripy.BoolS("p", explicit_name=True), claripy.BoolS("q", explicit_name=True)) if combo[0] != "leaf" else d, args[1], args[2])
    return BIN_ONLY[op](args[0], args[1])


def _arities(op, amax):
    if op in BV_OPS or op in ("Concat", "And", "Or"):
        return range(2, amax + 1)
    if op in ("Not", "__neg__", "__invert__", "Extract", "ZeroExt"):
        return [1]
    if op == "If":
        return [3]
    return [2]


OPS = list(BV_OPS) + ["Concat", "And", "Or", "Not", "__neg__", "__invert__", "Extract", "ZeroExt", "If"] + list(BIN_ONLY)


def ob_step(op, amax=3, tier="quick", budget_s=150, fn="excavate_ite"):
    import claripy
    import z3
    t0 = time.time()
    budget_s = _paths.scaled(budget_s)      # ledger obligations get more time: see paths.BUDGET_SCALE
    B = claripy.backends.z3
    n = 0
    failures, samples = [], []
    lifted = 0
    for ar in _arities(op, amax):
        for combo in itertools.product(KINDS, repeat=ar):
            if time.time() - t0 > budget_s:
                return {"status": "partial", "paths": n, "vcs": n, "reason": f"time budget {budget_s:g} s exhausted", "failures": [], "samples": samples}
            e = _build(op, combo)
            try:
                r = getattr(claripy, fn)(e)
            except Exception as ex:  # noqa
                failures.append({"label": f"{fn}.step/raises", "kind": "raises", "witness": {"op": op, "operands": list(combo), "e": str(e)},
                                 "detail": f"{fn} raised {type(ex).__name__}: {ex}", "replay": {"reproduced": True, "text": f"claripy.{fn}({e}) raised {type(ex).__name__}: {ex}"}})
                continue
            n += 1
            if r.op == "If" and e.op != "If":
                lifted += 1
            s = z3.Solver(ctx=B._context)
            s.set("timeout", int(_paths.scaled(20000)))
            ze, zr = B.convert(e), B.convert(r)
            s.add(ze != zr)
            res = s.check()
            if res == z3.unsat:
                if len(samples) < 2 and r is not e:
                    samples.append({"e": str(e), "result": str(r)})
                continue
            if res == z3.unknown:
                return {"status": "undecided", "paths": n, "vcs": n, "reason": f"z3 unknown on {e}", "failures": [], "samples": samples}
            m = s.model()
            failures.append({"label": f"{fn}.step/equivalent", "kind": "ensures",
                             "witness": {"op": op, "operands": list(combo), "e": str(e), "result": str(r), "model": str(m)[:400]},
                             "detail": f"{fn}(e) is not equivalent to e", "path": list(combo),
                             "replay": {"reproduced": True, "text": f"claripy.{fn}({e}) = {r}; they differ under {str(m)[:300]}"}})
            if len(failures) >= 3:
                break
    st = "violated" if failures else ("discharged" if n else "undecided")
    return {"status": st, "paths": n, "vcs": n, "solver_s": round(time.time() - t0, 2), "reason": "" if n else "vacuous: no shape generated",
            "failures": failures[:5], "n_failures": len(failures), "covers": {"shapes": n, "if-lifted-to-the-surface": lifted}, "samples": samples,
            "known_used": [], "ext_discharged": {}, "n_spurious": 0, "spurious": []}


def replay(task, failure):
    import claripy
    import z3
    kw = task["kwargs"]
    wit = failure.get("witness", {})
    e = _build(wit["op"], tuple(wit["operands"]))
    fn = kw.get("fn", "excavate_ite")
    try:
        r = getattr(claripy, fn)(e)
    except Exception as ex:  # noqa
        return {"reproduced": True, "text": f"claripy.{fn}({e}) raised {type(ex).__name__}: {ex}"}
    B = claripy.backends.z3
    s = z3.Solver(ctx=B._context)
    s.add(B.convert(e) != B.convert(r))
    bad = s.check() == z3.sat
    return {"reproduced": bad, "text": f"claripy.{fn}({e}) = {r}" + (f"; they differ under {str(s.model())[:300]}" if bad else "; equivalent")}


def ob_burrow(op, amax=3, tier="quick", budget_s=150):
    """burrow_ite on  If(c, op(a...), op'(b...)) : every choice of which operands of the two branches are the same node, same / different
    operation, one branch being a leaf or itself an If; the real burrow_ite's output is proved equivalent to its input by z3"""
    import claripy
    import z3
    t0 = time.time()
    budget_s = _paths.scaled(budget_s)      # ledger obligations get more time: see paths.BUDGET_SCALE
    B = claripy.backends.z3
    w = 4
    n, burrowed = 0, 0
    failures, samples = [], []
    # _burrow_ite gives up when the condition or a branch is a leaf, so the condition is a comparison
    c = claripy.ULT(claripy.BVS("p", w, explicit_name=True), claripy.BVS("q", w, explicit_name=True))
    boolean = op in ("And", "Or")
    mk = (lambda nm: claripy.BoolS(nm, explicit_name=True)) if boolean else (lambda nm: claripy.BVS(nm, w, explicit_name=True))

    def like(x, nm):
        return claripy.BoolS(nm, explicit_name=True) if x.length is None else claripy.BVS(nm, x.length, explicit_name=True)

    def apply(o, args):
        if o in BV_OPS:
            return reduce(BV_OPS[o], args)
        if o == "Concat":
            return claripy.Concat(*args)
        if o in ("And", "Or"):
            return getattr(claripy, o)(*args)
        return BIN_ONLY[o](args[0], args[1]) if BIN_ONLY.get(o) else getattr(claripy, o)(args[0], args[1])
    other = {"__add__": "__xor__", "And": "Or", "Or": "And"}.get(op, "__add__" if op != "__add__" else "__xor__")
    for ar in _arities(op, amax):
        for same in itertools.product([True, False], repeat=ar):
            for variant in ("same-op", "other-op", "false-branch-leaf", "false-branch-if", "operand-is-if", "fewer-operands", "more-operands"):
                if op in BIN_ONLY and variant == "other-op":
                    continue
                a = [mk(f"a{i}") for i in range(ar)]
                b = [a[i] if same[i] else mk(f"b{i}") for i in range(ar)]
                if variant in ("fewer-operands", "more-operands"):
                    # the two branches are the same variadic operation with DIFFERENT operand counts (a + b + d  vs  a + e)
                    if len(_arities(op, amax)) < 2 or op == "Concat":
                        continue
                    if variant == "fewer-operands":
                        if ar < 3:
                            continue
                        b = b[:-1]
                    else:
                        b = b + [mk("extra")]
                if variant == "operand-is-if":
                    a[0] = claripy.If(claripy.BoolS("d", explicit_name=True), a[0], mk("z"))
                    if same[0]:
                        b[0] = a[0]
                A = apply(op, a)
                if variant == "other-op":
                    Bx = apply(other, b) if (other in BV_OPS or other in ("And", "Or")) else apply(op, b)
                elif variant == "false-branch-leaf":
                    Bx = like(A, "leaf")
                elif variant == "false-branch-if":
                    Bx = claripy.If(claripy.BoolS("d", explicit_name=True), apply(op, b), like(A, "leaf"))
                else:
                    Bx = apply(op, b)
                if A.length != Bx.length:
                    continue
                e = claripy.If(c, A, Bx)
                try:
                    r = claripy.burrow_ite(e)
                except Exception as ex:  # noqa
                    failures.append({"label": "burrow_ite.step/raises", "kind": "raises", "witness": {"e": str(e)}, "detail": f"{type(ex).__name__}: {ex}",
                                     "replay": {"reproduced": True, "text": f"claripy.burrow_ite({e}) raised {type(ex).__name__}: {ex}"}})
                    continue
                n += 1
                if r.op != "If":
                    burrowed += 1
                s = z3.Solver(ctx=B._context)
                s.set("timeout", int(_paths.scaled(20000)))
                s.add(B.convert(e) != B.convert(r))
                res = s.check()
                if res == z3.unsat:
                    if len(samples) < 2 and r is not e:
                        samples.append({"e": str(e), "result": str(r)})
                    continue
                if res == z3.unknown:
                    return {"status": "undecided", "paths": n, "vcs": n, "reason": f"z3 unknown on {e}", "failures": [], "samples": samples}
                failures.append({"label": "burrow_ite.step/equivalent", "kind": "ensures", "witness": {"e": str(e), "result": str(r), "model": str(s.model())[:300]},
                                 "detail": "burrow_ite(e) is not equivalent to e",
                                 "replay": {"reproduced": True, "text": f"claripy.burrow_ite({e}) = {r}; they differ under {str(s.model())[:300]}"}})
    st = "violated" if failures else ("discharged" if n else "undecided")
    return {"status": st, "paths": n, "vcs": n, "solver_s": round(time.time() - t0, 2), "reason": "" if n else "vacuous: no shape generated",
            "failures": failures[:5], "n_failures": len(failures), "covers": {"shapes": n, "if-burrowed-below-the-root": burrowed}, "samples": samples,
            "known_used": [], "ext_discharged": {}, "n_spurious": 0, "spurious": []}


def ob_burrow_sizes(tier="quick"):
    """burrow_ite on  If(c, f(a), f(b))  where f changes the size of its operand (Extract, ZeroExt, SignExt, Concat) and the operands a, b of the
    two branches have EVERY combination of widths for which both branches are well-formed and equally wide: the branches then differ in one
    argument whose two versions may have different sizes, so an If between them need not exist.  The real burrow_ite must not raise, and its
    output is proved equivalent to its input by z3.  (ob_burrow uses one operand width throughout.)"""
    import claripy
    import z3
    t0 = time.time()
    B = claripy.backends.z3
    c = claripy.ULT(claripy.BVS("p", 4, explicit_name=True), claripy.BVS("q", 4, explicit_name=True))
    W = (1, 2, 3, 4)
    v = lambda nm, w: claripy.BVS(f"{nm}{w}", w, explicit_name=True)
    shapes = []
    for w1 in W:
        for w2 in W:
            a, b = v("a", w1), v("b", w2) + 1          # a leaf in one branch, an operation in the other (both forms occur in practice)
            for lo in range(min(w1, w2)):
                for hi in range(lo, min(w1, w2)):
                    shapes.append(("Extract", claripy.Extract(hi, lo, a + 1), claripy.Extract(hi, lo, b)))
            for tot in (4, 5):
                if w1 <= tot and w2 <= tot:
                    shapes.append(("ZeroExt", claripy.ZeroExt(tot - w1, a + 1) if tot > w1 else a + 1, claripy.ZeroExt(tot - w2, b) if tot > w2 else b))
                    shapes.append(("SignExt", claripy.SignExt(tot - w1, a + 1) if tot > w1 else a + 1, claripy.SignExt(tot - w2, b) if tot > w2 else b))
                if w1 < tot and w2 < tot:
                    r = v("r", tot - w1)
                    shapes.append(("Concat", claripy.Concat(a + 1, r), claripy.Concat(b, v("s", tot - w2) if w1 != w2 else r)))
                    shapes.append(("Concat", claripy.Concat(r, a + 1), claripy.Concat(v("s", tot - w2) if w1 != w2 else r, b)))
    n, burrowed, failures, samples = 0, 0, [], []
    for kind, A, Bx in shapes:
        if A.length != Bx.length:
            continue
        e = claripy.If(c, A, Bx)
        try:
            r = claripy.burrow_ite(e)
        except Exception as ex:  # noqa
            failures.append({"label": f"burrow_ite.sizes[{kind}]/raises", "kind": "raises", "witness": {"e": str(e)}, "detail": f"burrow_ite({e}): {type(ex).__name__}: {ex}",
                             "replay": {"reproduced": True, "text": f"claripy.burrow_ite({e}) raised {type(ex).__name__}: {ex}"}})
            continue
        n += 1
        burrowed += r.op != "If"
        s = z3.Solver(ctx=B._context)
        s.set("timeout", int(_paths.scaled(20000)))
        s.add(B.convert(e) != B.convert(r))
        res = s.check()
        if res == z3.unknown:
            return {"status": "undecided", "paths": n, "vcs": n, "reason": f"z3 unknown on {e}", "failures": [], "samples": samples}
        if res == z3.sat:
            failures.append({"label": f"burrow_ite.sizes[{kind}]/equivalent", "kind": "ensures", "witness": {"e": str(e), "result": str(r), "model": str(s.model())[:300]},
                             "detail": "burrow_ite(e) is not equivalent to e",
                             "replay": {"reproduced": True, "text": f"claripy.burrow_ite({e}) = {r}; they differ under {str(s.model())[:300]}"}})
        elif len(samples) < 2 and r is not e:
            samples.append({"e": str(e), "result": str(r)})
    st = "violated" if failures else ("discharged" if n else "undecided")
    return {"status": st, "paths": n, "vcs": n, "solver_s": round(time.time() - t0, 2), "reason": "" if n else "vacuous: no shape generated",
            "failures": failures[:5], "n_failures": len(failures), "covers": {"shapes": n, "if-burrowed-below-the-root": int(burrowed)}, "samples": samples,
            "known_used": [], "ext_discharged": {}, "n_spurious": 0, "spurious": []}
