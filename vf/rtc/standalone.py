"""witness -> a stand-alone python script that uses nothing but claripy (no harness code): it replays the
history, prints every answer, and for the failing call also prints what a FRESH SolverCacheless built
from the same constraints answers.  Used to confirm natively that a finding is claripy's.

    python -m vf.rtc.standalone <replay-or-witness.json>     # prints the script
    python -m vf.rtc.standalone --run <file.json>            # runs it in a fresh interpreter
"""
from __future__ import annotations

import json
import subprocess
import sys

PRELUDE = '''import claripy, pickle
from claripy import (ULT, ULE, UGT, UGE, SLT, SLE, SGT, SGE, And, Or, Not, If, ZeroExt, SignExt, Extract, Concat, LShR,
                     BVV, BoolV, StringV, StrLen, StrConcat, StrContains, StrPrefixOf, StrSuffixOf, StrSubstr, StrIndexOf)
TRUE, FALSE = claripy.true(), claripy.false()
def show(label, f):
    try:
        r = f()
        if isinstance(r, (list, tuple, set)): r = sorted(r, key=repr)
        print(f"{label} -> {r!r}")
    except Exception as e:
        print(f"{label} -> raises {type(e).__name__}: {e}")
'''


def _call(st, target, q):
    op = st["op"]
    x = "(" + "".join(c + ", " for c in st.get("x") or []) + ")"
    kw = "".join(f", {k}={v!r}" for k, v in (q or {}).items())
    if op == "add":
        cs = st["c"]
        return f"{target}.add([{', '.join(cs)}])" if len(cs) > 1 or st.get("aslist") else f"{target}.add({cs[0]})"
    if op == "satisfiable":
        return f"{target}.satisfiable(extra_constraints={x}{kw})"
    if op == "eval":
        return f"{target}.eval({st['e']}, {st['n']}, extra_constraints={x}{kw})"
    if op == "batch_eval":
        return f"{target}.batch_eval([{', '.join(st['es'])}], {st['n']}, extra_constraints={x}{kw})"
    if op in ("min", "max"):
        return f"{target}.{op}({st['e']}, extra_constraints={x}, signed={bool(st.get('signed'))}{kw})"
    if op == "solution":
        return f"{target}.solution({st['e']}, {st['v']!r}, extra_constraints={x}{kw})"
    if op in ("is_true", "is_false"):
        return f"{target}.{op}({st['e']}, extra_constraints={x}{kw})"
    if op in ("simplify", "downsize", "unsat_core"):
        return f"{target}.{op}()"
    raise ValueError(op)


def script(w):
    vars, cfg, steps = w["vars"], w["cfg"], w["steps"]
    q = cfg.get("q") or {}
    out = [PRELUDE]
    for n, wd in vars.items():
        if wd == "S":
            out.append(f"{n} = claripy.StringS({n!r}, explicit_name=True)")
        elif wd == "B":
            out.append(f"{n} = claripy.BoolS({n!r}, explicit_name=True)")
        else:
            out.append(f"{n} = claripy.BVS({n!r}, {wd}, explicit_name=True)")
    kw = dict(cfg.get("kwargs") or {})
    ctor = f"claripy.{cfg['cls']}(" + ", ".join(f"{k}={v!r}" for k, v in kw.items()) + ")"
    if cfg.get("reuse"):
        out.append("claripy.backends.z3.reuse_z3_solver = True     # what REUSE_Z3_SOLVER=1 selects")
    if any(s["op"] == "fault" for s in steps):
        out.append('''import claripy.backends.backend_z3 as bz
_orig, _f = bz.z3_solver_sat, {"k": 0, "n": 0}
def _faulty(solver, extra, occasion):
    if _f["k"]:
        _f["n"] += 1
        if _f["n"] == _f["k"]:
            _f["k"] = 0
            raise claripy.errors.ClaripySolverInterruptError("timeout")
    return _orig(solver, extra, occasion)
bz.z3_solver_sat = _faulty''')
    out.append(f"s0 = {ctor}")
    nobj = 1
    ghost = {0: []}
    for i, st in enumerate(steps):
        on = st.get("on", 0) if st["op"] != "fault" else st["step"].get("on", 0)
        t = f"s{on}"
        op = st["op"]
        if op == "fault":
            inner = st["step"]
            out.append(f'_f.update(k={st["k"]}, n=0)    # the next z3 check number {st["k"]} "times out"')
            out.append(f'show({"[faulted] " + _call(inner, t, q)!r}, lambda: {_call(inner, t, q)})')
            out.append("_f['k'] = 0")
            continue
        if op == "branch":
            out.append(f"s{nobj} = {t}.branch()")
            ghost[nobj] = list(ghost.get(on, []))
            nobj += 1
        elif op == "new":
            out.append(f"s{nobj} = {ctor}")
            ghost[nobj] = []
            nobj += 1
        elif op == "pickle":
            out.append(f"s{nobj} = pickle.loads(pickle.dumps({t}, -1))")
            ghost[nobj] = list(ghost.get(on, []))
            nobj += 1
        elif op == "split_combine":
            out.append(f"_p = {t}.split(); s{nobj} = _p[0].combine(_p[1:]) if _p else {t}.branch()")
            ghost[nobj] = list(ghost.get(on, []))
            nobj += 1
        elif op == "combine":
            out.append(f"s{nobj} = {t}.combine([{', '.join('s%d' % j for j in st['others'])}])")
            ghost[nobj] = None
            out.append(f"print('combined constraints:', s{nobj}.constraints)")
            nobj += 1
        elif op == "merge":
            anc = st.get("ancestor")
            out.append(f"s{nobj} = {t}.merge([{', '.join('s%d' % j for j in st['others'])}], [{', '.join(st['conds'])}]"
                       + (f", common_ancestor=s{anc}" if anc is not None else "") + ")[1]")
            out.append(f"print('merged constraints:', s{nobj}.constraints)")
            ghost[nobj] = None
            nobj += 1
        elif op == "split":
            out.append(f"_pieces = {t}.split(); print('split ->', [p.constraints for p in _pieces], [sorted(p.variables) for p in _pieces])")
            out.append("for _k, _p in enumerate(_pieces): globals()['s%d' % (%d + _k)] = _p" % nobj)
            nobj += 4
        elif op == "add":
            out.append(_call(st, t, q))
            if ghost.get(on) is not None:
                ghost[on] = ghost[on] + list(st["c"])
        elif op in ("simplify", "downsize"):
            out.append(f'show({_call(st, t, q)!r}, lambda: {_call(st, t, q)})')
        else:
            out.append(f'show({_call(st, t, q)!r}, lambda: {_call(st, t, q)})')
            if i == w.get("fail_step") and ghost.get(on) is not None and op != "unsat_core":
                out.append(f"_fresh = claripy.SolverCacheless(); _fresh.add([{', '.join(ghost[on])}])" if ghost[on]
                           else "_fresh = claripy.SolverCacheless()")
                out.append(f'show("   fresh SolverCacheless over the same constraints: " + {_call(st, "_fresh", {})!r}, lambda: {_call(st, "_fresh", {})})')
    return "\n".join(out) + "\n"


def run(w, python=None):
    p = subprocess.run([python or sys.executable, "-c", script(w)], capture_output=True, text=True, timeout=300)
    return p.stdout + (("\nSTDERR: " + p.stderr[-800:]) if p.returncode else "")


if __name__ == "__main__":
    args = sys.argv[1:]
    do_run = args and args[0] == "--run"
    if do_run:
        args = args[1:]
    d = json.load(open(args[0]))
    w = d.get("witness") or (d.get("failure") or {}).get("witness") or d
    if do_run:
        print(run(w))
    else:
        print(script(w))
