"""C26 - every primitive returned by eval / batch_eval / min / max is the value of the expression in
some model: re-asserting  e == value  (floats by bit pattern through fpToIEEEBV, NaN as fpIsNaN, strings
as sequences of code points built with CharVal - no escape syntax involved) together with the
constraints in an independent fresh z3 query is satisfiable.

A *case* is JSON-able:
  {"sort":"bv","w":65,"form":"eq"|"plus1"|"not"|"concat"|"free","val":int}
  {"sort":"fp","fs":"FLOAT"|"DOUBLE","form":"bits"|"nan"|"eq"|"gtmax"|"ltmin","bits":int}
  {"sort":"str","form":"eq"|"concat"|"len","val":str}
and a *query*:  {"op":"eval","n":1|2} | {"op":"batch_eval","n":1} | {"op":"min"|"max","signed":bool}
The constraint of a case is built twice: with claripy (for the solver under test) and directly with
z3py (for the reference); the variable is named "v" in both.
"""
from __future__ import annotations

import json
import math
import struct
import time

from . import driver

SOLVERS_BV = ["Solver", "SolverCacheless", "SolverComposite", "SolverHybrid", "SolverReplacement"]
SOLVERS_FP = ["Solver", "SolverCacheless", "SolverComposite", "SolverHybrid", "SolverReplacement"]
SOLVERS_STR = ["SolverStrings", "Solver", "SolverCacheless", "SolverComposite", "SolverHybrid"]

FS = {"FLOAT": (8, 24, 32, "<f", "<I"), "DOUBLE": (11, 53, 64, "<d", "<Q")}


def fp_boundaries(fs):
    eb, sb, w, _, _ = FS[fs]
    mant = sb - 1
    sign = 1 << (w - 1)
    emax = ((1 << eb) - 1) << mant
    out = {
        "+0": 0, "-0": sign, "sub_min": 1, "sub_max": (1 << mant) - 1, "-sub_min": sign | 1,
        "norm_min": 1 << mant, "norm_max": emax - 1, "-norm_max": sign | (emax - 1),
        "+inf": emax, "-inf": sign | emax, "one": ((1 << (eb - 1)) - 1) << mant,
    }
    return out


def bits_of(fs, f):
    _, _, _, pf, pi = FS[fs]
    return struct.unpack(pi, struct.pack(pf, f))[0]


def float_of(fs, bits):
    _, _, _, pf, pi = FS[fs]
    return struct.unpack(pf, struct.pack(pi, bits))[0]


def z3_strlit(z3, s):
    if not s:
        return z3.Empty(z3.StringSort())
    us = [z3.Unit(z3.CharVal(ord(c))) for c in s]
    return z3.Concat(*us) if len(us) > 1 else us[0]


def build(case):
    """-> (claripy variable, [claripy constraints], z3 variable, [z3 constraints])"""
    import claripy
    import z3
    so = case["sort"]
    if so == "bv":
        w, v, form = case["w"], case.get("val", 0), case["form"]
        m = (1 << w) - 1
        x = claripy.BVS("v", w, explicit_name=True)
        zx = z3.BitVec("v", w)
        if form == "eq":
            return x, [x == claripy.BVV(v, w)], zx, [zx == z3.BitVecVal(v, w)]
        if form == "plus1":
            return x, [x + 1 == claripy.BVV((v + 1) & m, w)], zx, [zx + 1 == z3.BitVecVal((v + 1) & m, w)]
        if form == "not":
            return x, [~x == claripy.BVV(~v & m, w)], zx, [~zx == z3.BitVecVal(~v & m, w)]
        if form == "ule_uge":
            return x, [claripy.ULE(x, v), claripy.UGE(x, v)], zx, [z3.ULE(zx, v), z3.UGE(zx, v)]
        if form == "free":
            return x, [], zx, []
        raise ValueError(form)
    if so == "fp":
        fs = case["fs"]
        eb, sb, w, _, _ = FS[fs]
        csort = getattr(claripy, "FSORT_" + fs)
        f = claripy.FPS("v", csort, explicit_name=True)
        zf = z3.FP("v", z3.FPSort(eb, sb))
        form = case["form"]
        bits = case.get("bits", 0)
        if form == "bits":
            return f, [claripy.fpToIEEEBV(f) == claripy.BVV(bits, w)], zf, [z3.fpToIEEEBV(zf) == z3.BitVecVal(bits, w)]
        if form == "nan":
            return f, [claripy.fpIsNaN(f)], zf, [z3.fpIsNaN(zf)]
        if form == "eq":
            val = float_of(fs, bits)
            return f, [claripy.fpEQ(f, claripy.FPV(val, csort))], zf, [z3.fpEQ(zf, z3.fpBVToFP(z3.BitVecVal(bits, w), z3.FPSort(eb, sb)))]
        if form == "gtmax":     # greater than the largest normal: +inf only
            nm = fp_boundaries(fs)["norm_max"]
            return (f, [claripy.fpGT(f, claripy.FPV(float_of(fs, nm), csort))], zf,
                    [z3.fpGT(zf, z3.fpBVToFP(z3.BitVecVal(nm, w), z3.FPSort(eb, sb)))])
        if form == "ltmin":     # below the most negative normal: -inf only
            nm = fp_boundaries(fs)["-norm_max"]
            return (f, [claripy.fpLT(f, claripy.FPV(float_of(fs, nm), csort))], zf,
                    [z3.fpLT(zf, z3.fpBVToFP(z3.BitVecVal(nm, w), z3.FPSort(eb, sb)))])
        if form == "possub":    # 0 < f < smallest normal: the positive subnormals
            nm = fp_boundaries(fs)["norm_min"]
            return (f, [claripy.fpGT(f, claripy.FPV(0.0, csort)), claripy.fpLT(f, claripy.FPV(float_of(fs, nm), csort))], zf,
                    [z3.fpGT(zf, z3.fpBVToFP(z3.BitVecVal(0, w), z3.FPSort(eb, sb))),
                     z3.fpLT(zf, z3.fpBVToFP(z3.BitVecVal(nm, w), z3.FPSort(eb, sb)))])
        raise ValueError(form)
    if so == "str":
        s = claripy.StringS("v", explicit_name=True)
        zs = z3.String("v")
        val, form = case["val"], case["form"]
        if form == "eq":
            return s, [s == claripy.StringV(val)], zs, [zs == z3_strlit(z3, val)]
        if form == "concat":    # "<" + v + ">" == "<" + val + ">"
            return (s, [claripy.StrConcat(claripy.StringV("<"), s, claripy.StringV(">")) == claripy.StringV("<" + val + ">")],
                    zs, [z3.Concat(z3_strlit(z3, "<"), zs, z3_strlit(z3, ">")) == z3_strlit(z3, "<" + val + ">")])
        if form == "prefix_len":
            return (s, [claripy.StrPrefixOf(claripy.StringV(val), s), claripy.StrLen(s) == len(val)],
                    zs, [z3.PrefixOf(z3_strlit(z3, val), zs), z3.Length(zs) == len(val)])
        raise ValueError(form)
    raise ValueError(so)


def value_eq(case, zv, value):
    """z3 formula 'the variable has exactly the python value' or None if the value cannot be one"""
    import z3
    so = case["sort"]
    if so == "bv":
        if isinstance(value, bool) or not isinstance(value, int):
            return None
        # a signed min/max answers with the signed integer (claripy's convention); compare as a bit pattern
        if value < -(1 << (case["w"] - 1)) or (value >= 0 and value >> case["w"]):
            return None
        return zv == z3.BitVecVal(value % (1 << case["w"]), case["w"])
    if so == "fp":
        if not isinstance(value, float):
            return None
        fs = case["fs"]
        eb, sb, w, _, _ = FS[fs]
        if math.isnan(value):
            return z3.fpIsNaN(zv)
        try:
            if float_of(fs, bits_of(fs, value)) != value:      # not a value of this format
                return None
        except (OverflowError, struct.error):
            return None
        return z3.fpToIEEEBV(zv) == z3.BitVecVal(bits_of(fs, value), w)
    if so == "str":
        if not isinstance(value, str):
            return None
        return zv == z3_strlit(z3, value)
    return None


def classify(case, q, value, expected):
    op = q["op"]
    so = case["sort"]
    if so == "str" and isinstance(value, str):
        if "\\u{" in value and "\\u{" not in (expected or ""):
            return f"{op}/string-escape"
        if expected is not None and "\\u{" in expected:
            return f"{op}/string-literal-unescape"
        return f"{op}/string-value"
    if so == "fp":
        return f"{op}/fp-value"
    return f"{op}/{so}-value"


def expected_of(case):
    if case["sort"] == "str":
        return case["val"]
    if case["sort"] == "bv" and case["form"] != "free":
        return case.get("val")
    if case["sort"] == "fp" and case["form"] in ("bits", "eq"):
        return float_of(case["fs"], case["bits"])
    return None


def run_case(cls, kwargs, case, q):
    """-> list of (label, value, detail) failures, n checked values, or raises Undecided-like ('undecided', reason)"""
    import claripy
    import z3
    v, cons, zv, zcons = build(case)
    s = getattr(claripy, cls)(**(kwargs or {}))
    s.add(cons)
    op = q["op"]
    try:
        if op == "eval":
            vals = list(s.eval(v, q["n"]))
        elif op == "batch_eval":
            vals = [t[0] for t in s.batch_eval([v], q["n"])]
        elif op == "min":
            vals = [s.min(v, signed=bool(q.get("signed")))]
        elif op == "max":
            vals = [s.max(v, signed=bool(q.get("signed")))]
        else:
            raise ValueError(op)
    except Exception as e:  # noqa: BLE001
        # an exception is not a returned value: C26 (about returned values) says nothing; recorded as unsupported
        tag = "" if isinstance(e, claripy.errors.ClaripyError) else "CRASH "
        return [], 0, f"{tag}{type(e).__name__}: {e}"
    fails = []
    exp = expected_of(case)
    if op in ("eval", "batch_eval") and case["sort"] != "fp":
        # C11: results are pairwise distinct (floats excluded: NaN != NaN, and -0.0 == 0.0)
        dup = [x for i, x in enumerate(vals) if x in vals[:i]]
        if dup:
            fails.append((f"{op}/duplicate-result", dup[0], f"{cls}: constraints {[str(c) for c in cons]}; {op}(n={q.get('n')}) returned {vals!r}: "
                          "the same value twice"))
    for val in vals:
        eq = value_eq(case, zv, val)
        ok = None
        if eq is not None:
            zs = z3.Solver()
            zs.set("timeout", 20000)
            zs.add(*zcons)
            zs.add(eq)
            r = zs.check()
            if r == z3.unknown:
                return fails, len(vals), "UNDECIDED z3 unknown"
            ok = r == z3.sat
        if not ok:
            shown = val.hex() if isinstance(val, float) and not math.isnan(val) else val
            lab = classify(case, q, val, exp if isinstance(exp, str) else None)
            pre = "replacement:" if cls == "SolverReplacement" and "not-nbit-pattern" not in lab else ""
            fails.append((pre + lab, shown,
                          f"{cls}: constraints {[str(c) for c in cons]}; {op} returned {val!r}; "
                          f"re-asserting v == {val!r} with the constraints is unsatisfiable"
                          + (f" (the only admissible value is {exp!r})" if exp is not None else "")))
    return fails, len(vals), None


def all_cases():
    cases = []
    for w in (1, 8, 64, 65, 256):
        vals = sorted({0, 1, (1 << w) - 1, 1 << (w - 1)})
        for v in vals:
            for form in ("eq", "plus1", "not", "ule_uge"):
                cases.append({"sort": "bv", "w": w, "form": form, "val": v})
        cases.append({"sort": "bv", "w": w, "form": "free"})
    for fs in ("FLOAT", "DOUBLE"):
        for name, bits in fp_boundaries(fs).items():
            cases.append({"sort": "fp", "fs": fs, "form": "bits", "bits": bits, "name": name})
            if name not in ("+inf", "-inf"):
                cases.append({"sort": "fp", "fs": fs, "form": "eq", "bits": bits, "name": name})
        for form in ("nan", "gtmax", "ltmin", "possub"):
            cases.append({"sort": "fp", "fs": fs, "form": form})
    for val in ["", "a", "\x00z", "a\\b", 'q"q', "café", "\U0001F600", "x\U0001F600y", "\\u{48}", "\\u0048", "\\x41", "tab\there", "\x7f", "ÿĀ"]:
        for form in ("eq", "concat", "prefix_len"):
            cases.append({"sort": "str", "form": form, "val": val})
    return cases


def queries_for(case):
    qs = [{"op": "eval", "n": 1}, {"op": "eval", "n": 2}, {"op": "batch_eval", "n": 1}, {"op": "min"}, {"op": "max"}]
    if case["sort"] == "bv":
        qs += [{"op": "min", "signed": True}, {"op": "max", "signed": True}]
    return qs


def boundary(sort, shard=0, nshards=1, seed=0, known_labels=(), classes=None):
    """task function: all boundary cases of one sort x all queries x all solver classes supporting it"""
    t0 = time.time()
    classes = classes or {"bv": SOLVERS_BV, "fp": SOLVERS_FP, "str": SOLVERS_STR}[sort]
    cases = [c for c in all_cases() if c["sort"] == sort]
    evaluations = 0
    distinct = 0
    fails = []
    n_fail = 0
    labels = {}
    known_hits = {}
    known_w = {}
    unsupported = {}
    undecided = []
    samples = []
    i = -1
    for cls in classes:
        for case in cases:
            for q in queries_for(case):
                i += 1
                if i % nshards != shard:
                    continue
                try:
                    fl, n, note = run_case(cls, None, case, q)
                except Exception as e:  # noqa: BLE001  a crash of claripy on a boundary value: report, labelled
                    fl, n, note = [(f"{q['op']}/exception-{type(e).__name__}", None, f"{cls} {case} {q}: {type(e).__name__}: {e}")], 1, None
                evaluations += n
                if n:
                    distinct += 1
                if note:
                    if note.startswith("UNDECIDED"):
                        undecided.append({"cls": cls, "case": case, "query": q})
                    else:
                        unsupported[f"{cls}/{sort}/{q['op']}: {note[:80]}"] = unsupported.get(f"{cls}/{sort}/{q['op']}: {note[:80]}", 0) + 1
                if len(samples) < 2 and n and i % 11 == 5:
                    samples.append({"cls": cls, "case": case, "query": q, "ok": not fl})
                for (lab, val, detail) in fl:
                    w = {"cls": cls, "case": case, "query": q, "got": val}
                    if driver.known(lab, known_labels):
                        known_hits[lab] = known_hits.get(lab, 0) + 1
                        known_w.setdefault(lab, w)
                        continue
                    n_fail += 1
                    labels[lab] = labels.get(lab, 0) + 1
                    if len(fails) < 5 and not any(f["label"] == lab for f in fails):
                        fails.append({"label": lab, "kind": "bounded", "witness": w, "detail": detail[:400]})
    status = "violated" if n_fail else ("undecided" if undecided else "ok")
    return {"status": status, "evaluations": evaluations, "distinct_nontrivial": distinct, "failures": fails,
            "n_failures": n_fail, "failure_labels": labels, "known_hits": known_hits, "known_witnesses": known_w,
            "samples": samples, "unsupported": unsupported,
            "reason": (f"{len(undecided)} questions undecided by z3" if undecided and not n_fail else ""),
            "rule": f"sort {sort}: every boundary case x every query x classes {classes} (shard {shard}/{nshards}); "
                    "evaluations = returned primitives re-asserted; distinct = (class, case, query) triples that returned a value",
            "wall_s": round(time.time() - t0, 2)}


def replay(task, failure):
    w = failure["witness"]
    fl, n, note = run_case(w["cls"], None, w["case"], w["query"])
    hit = [f for f in fl if f[0] == failure["label"]]
    text = f"claripy.{w['cls']}(), case {json.dumps(w['case'])}, query {json.dumps(w['query'])}: "
    if hit:
        return {"reproduced": True, "text": text + hit[0][2]}
    return {"reproduced": False, "text": text + (f"other failure {fl[0][0]}" if fl else f"value(s) now admissible ({n} checked) {note or ''}")}
