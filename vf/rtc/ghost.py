"""Ghost child solvers for the composite layer (C12, C14, C15): the REAL SolverComposite (CompositeFrontend and all its
mixins) and the REAL child mixin stack (ConstraintDeduplicator, SatCache, SimplifySkipper, ModelCache) run on top of
EnumFrontend, a contract-level replacement of FullFrontend that answers every query exactly by enumerating the assignments
of a small universe (no Z3).  Because a history costs milliseconds instead of seconds, the composite's own bookkeeping
(child ownership / copy-on-write, the merged-solver cache, splitting, merging) is explored exhaustively over much longer
histories than with real children - still a bounded result, labelled so.

Run-time contracts checked inside the ghost:
  ownership   a child solver is only written (_add) while at most one composite references it (in _solvers or in
              _merged_solvers): writing a child another composite can still reach changes that composite's answers;
  (answers are judged by the driver against the stateless reference, as for real solvers)."""
from __future__ import annotations

import itertools

import claripy
from claripy.errors import UnsatError
from claripy.frontend.constrained_frontend import ConstrainedFrontend
from claripy.frontend.mixin import ConstraintDeduplicatorMixin, ModelCacheMixin, SatCacheMixin, SimplifySkipperMixin


class SharedChildMutated(Exception):
    """ownership contract of the composite's copy-on-write protocol violated"""


class World:
    """truth tables of expressions over all assignments of the declared variables (<= 8 bits in all)"""

    def __init__(self, vars):
        self.vars = dict(vars)
        self.names = sorted(vars)
        self.widths = [1 if vars[n] == "B" else vars[n] for n in self.names]
        self.assignments = list(itertools.product(*[range(1 << w) for w in self.widths]))
        if len(self.assignments) > 4096:
            raise ValueError("ghost universe too large")
        self.ALL = (1 << len(self.assignments)) - 1
        self._tab = {}
        self.solvers = []          # the driver's list of live composites (set by the driver)
        self.leaves = {}

    def _leaf(self, name):
        return self.leaves.get(name)

    def table(self, e):
        """value -> bit-set of assignments; e is a claripy AST or a Python constant"""
        if not isinstance(e, claripy.ast.Base):
            return {e: self.ALL}
        h = e.hash()
        t = self._tab.get(h)
        if t is not None:
            return t
        lv = {}
        for l in e.leaf_asts():
            if l.op in ("BVS", "BoolS"):
                lv[l.args[0]] = l
        used = sorted(lv)
        # the declared variables are known by their claripy names (prefix match on the declared name)
        idx = {}
        for nm in used:
            base = nm.split("_")[0] if nm not in self.names else nm
            if base not in self.names:
                raise ValueError(f"expression mentions an undeclared variable {nm}")
            idx[nm] = self.names.index(base)
        t = {}
        cache = {}
        for ai, asg in enumerate(self.assignments):
            key = tuple(asg[idx[nm]] for nm in used)
            v = cache.get(key)
            if v is None:
                rep = {}
                for nm in used:
                    l = lv[nm]
                    rep[l.hash()] = claripy.BoolV(bool(asg[idx[nm]])) if l.op == "BoolS" else claripy.BVV(asg[idx[nm]], l.length)
                r = claripy.replace_dict(e, rep) if rep else e
                if r.op in ("BVV", "BoolV"):
                    v = r.args[0]
                else:
                    v = claripy.backends.concrete.eval(r, 1)[0]
                v = bool(v) if isinstance(e, claripy.ast.Bool) else int(v)
                cache[key] = v
            t[v] = t.get(v, 0) | (1 << ai)
        self._tab[h] = t
        return t

    def truth(self, c):
        return self.table(c).get(True, 0)

    def model_of(self, ai, variables):
        """name -> value for the assignment with index ai (claripy variable names)"""
        asg = self.assignments[ai]
        out = {}
        for nm in variables:
            base = nm if nm in self.names else nm.split("_")[0]
            if base in self.names:
                out[nm] = asg[self.names.index(base)]
        return out

    def holders(self, child):
        n = 0
        for s in self.solvers:
            refs = list(getattr(s, "_solvers", {}).values()) + list(getattr(s, "_merged_solvers", {}).values())
            if any(r is child for r in refs):
                n += 1
        return n


class EnumFrontend(ConstrainedFrontend):
    """contract-level stand-in for FullFrontend: exact answers by enumeration; same exceptions, same callback protocol"""

    def __init__(self, world=None, track=False, **kwargs):
        super().__init__(**kwargs)
        self._world = world
        self._track = track
        self.timeout = None
        self.max_memory = None

    def _blank_copy(self, c):
        super()._blank_copy(c)
        c._world = self._world
        c._track = self._track
        c.timeout = self.timeout
        c.max_memory = self.max_memory

    def _copy(self, c):
        super()._copy(c)

    # ---- writing: the ownership contract
    def _add(self, constraints, invalidate_cache=True):
        if constraints and self._world.holders(self) > 1:
            raise SharedChildMutated(f"a child solver over {sorted(self.variables)} that {self._world.holders(self)} composites reference "
                                     f"was written ({[str(c) for c in constraints][:3]})")
        return super()._add(constraints, invalidate_cache=invalidate_cache)

    def simplify(self):
        return self.constraints            # the identity is a valid simplification (Z3's simplifier is not the subject here)

    # ---- solving
    def _mset(self, extra=()):
        m = self._world.ALL
        for c in itertools.chain(self.constraints, extra):
            m &= self._world.truth(c)
            if not m:
                break
        return m

    def _report(self, ai):
        hook = getattr(self, "_model_hook", None)
        if hook is not None:
            names = set(self.variables)
            hook(self._world.model_of(ai, names))

    @staticmethod
    def _bits(m):
        i = 0
        while m:
            if m & 1:
                yield i
            m >>= 1
            i += 1

    def check_satisfiability(self, extra_constraints=(), exact=None):
        m = self._mset(extra_constraints)
        if m:
            self._report((m & -m).bit_length() - 1)
            return "SAT"
        return "UNSAT"

    def satisfiable(self, extra_constraints=(), exact=None):
        return self.check_satisfiability(extra_constraints=extra_constraints, exact=exact) == "SAT"

    def batch_eval(self, exprs, n, extra_constraints=(), exact=None):
        m = self._mset(extra_constraints)
        if not m:
            raise UnsatError("CONSTRAINTS UNSAT")
        tabs = [self._world.table(e) for e in exprs]
        out, seen = [], set()
        for ai in self._bits(m):
            vals = tuple(next(v for v, vm in t.items() if vm >> ai & 1) for t in tabs)
            if vals in seen:
                continue
            seen.add(vals)
            self._report(ai)
            out.append(vals)
            if len(out) >= n:
                break
        return out

    def eval(self, e, n, extra_constraints=(), exact=None):
        return tuple(r[0] for r in self.batch_eval([e], n, extra_constraints=extra_constraints, exact=exact))

    def _extremum(self, e, extra_constraints, signed, is_max):
        m = self._mset(extra_constraints)
        if not m:
            raise UnsatError("CONSTRAINTS UNSAT")
        w = e.length
        key = (lambda v: v - (1 << w) if v >> (w - 1) else v) if signed else (lambda v: v)
        best, bai = None, None
        for v, vm in self._world.table(e).items():
            if vm & m and (best is None or (key(v) > key(best) if is_max else key(v) < key(best))):
                best, bai = v, ((vm & m) & -(vm & m)).bit_length() - 1
        self._report(bai)
        return key(best) if signed else best

    def max(self, e, extra_constraints=(), signed=False, exact=None):
        return self._extremum(e, extra_constraints, signed, True)

    def min(self, e, extra_constraints=(), signed=False, exact=None):
        return self._extremum(e, extra_constraints, signed, False)

    def solution(self, e, v, extra_constraints=(), exact=None):
        m = self._mset(extra_constraints)
        te = self._world.table(e)
        tv = self._world.table(v) if isinstance(v, claripy.ast.Base) else None
        for ai in self._bits(m):
            ev = next(x for x, vm in te.items() if vm >> ai & 1)
            vv = next(x for x, vm in tv.items() if vm >> ai & 1) if tv is not None else v
            if ev == vv:
                self._report(ai)
                return True
        return False

    def is_true(self, e, extra_constraints=(), exact=None):
        # like BackendZ3._is_true: True only for a valid expression, whatever the constraints are
        return self._world.truth(e) == self._world.ALL

    def is_false(self, e, extra_constraints=(), exact=None):
        return self._world.truth(e) == 0

    def unsat_core(self, extra_constraints=()):
        if self._mset(extra_constraints):
            return ()
        return tuple(self.constraints)

    def downsize(self):
        ConstrainedFrontend.downsize(self)


class GhostCompositeChild(ConstraintDeduplicatorMixin, SatCacheMixin, SimplifySkipperMixin, ModelCacheMixin, EnumFrontend):
    """the real mixin stack of SolverCompositeChild over the enumeration frontend"""

    def __repr__(self):
        return f"<GhostCompositeChild {sorted(self.variables)} {len(self.constraints)} constraints>"


def make_composite(vars, track=False):
    world = World(vars)
    s = claripy.SolverComposite(template_solver=GhostCompositeChild(world=world, track=track), track=track)
    return s, world
