"""Bounded run-time-contract stand-in for the solver-frontend properties (C11-C18, C26).

    tasks(prop, tier, seed, known_labels=None) -> list of task dicts (vf.common.task)

Every task function returns
  {"status": "ok"|"violated"|"undecided", "evaluations": int, "distinct_nontrivial": int,
   "failures": [{"label","kind":"bounded","witness","detail"} <= 5], "n_failures": int,
   "known_hits": {label: count}, "samples": [...], "reason": str, "rule": str, ...}
and every task names a native replay function  replay(task, failure) -> {"reproduced", "text"}.

Failures whose label matches an entry of known_labels (exact, or fnmatch pattern with * / ?) are counted
in known_hits and do not make the status "violated".
"""
from __future__ import annotations

import json
import os

HERE = os.path.dirname(os.path.abspath(__file__))
PROPS = ("C11", "C12", "C13", "C14", "C15", "C16", "C17", "C18", "C26")

H = "vf.rtc.histories"
REPLAY = "vf.rtc.driver:replay"


def proposed_labels():
    try:
        data = json.load(open(os.path.join(HERE, "proposed_findings.json")))
    except FileNotFoundError:
        return []
    out = []
    for f in data.get("findings", []):
        out.extend(f.get("labels", []))
    return sorted(set(out))


def _t(mod, fn, tid, prop, replay=REPLAY, **kw):
    from vf.common import task
    return task(mod, fn, tid, [prop], kind="bounded", replay=replay, **kw)


S = {"cls": "Solver"}
SC = {"cls": "SolverCacheless"}
SR = {"cls": "Solver", "reuse": True}
SCR = {"cls": "SolverCacheless", "reuse": True}
SS = {"cls": "SolverStrings"}
COMP = {"cls": "SolverComposite"}
REPL = {"cls": "SolverReplacement"}
HYB = {"cls": "SolverHybrid"}
HYB_A = {"cls": "SolverHybrid", "q": {"exact": False}, "mode": "contain"}
HYB_AF = {"cls": "SolverHybrid", "kwargs": {"approximate_first": True}, "mode": "af"}
VSA = {"cls": "SolverVSA", "mode": "contain"}
# the real SolverComposite (and the real child mixin stack) over ghost enumeration children: vf/rtc/ghost.py
GCOMP = {"cls": "SolverComposite", "ghost": True}
GCHILD = {"cls": "GhostChild", "ghost": True}
S3 = [{"op": "simplify"}, {"op": "downsize"}, {"op": "branch", "move": True}]


def _name(cfg):
    n = cfg["cls"]
    if cfg.get("ghost"):
        n += "~ghost-children" if cfg["cls"] != "GhostChild" else "~child-mixins-over-enumeration"
    if cfg.get("reuse"):
        n += "+reuse"
    if cfg.get("kwargs"):
        n += "(" + ",".join(f"{k}={v}" for k, v in sorted(cfg["kwargs"].items())) + ")"
    if cfg.get("q"):
        n += "[" + ",".join(f"{k}={v}" for k, v in sorted(cfg["q"].items())) + "]"
    return n


def repl_cfg(auto, cplx, rc):
    return {"cls": "SolverReplacement", "kwargs": {"auto_replace": auto, "complex_auto_replace": cplx, "replace_constraints": rc}}


def tasks(prop, tier="quick", seed=0, known_labels=None):
    if known_labels is None:
        known_labels = proposed_labels()
    kl = list(known_labels)
    quick = tier == "quick"
    out = []

    def lin(cfg, fam, prop_, shards=1, **kw):
        for sh in range(shards):
            out.append(_t(H, "linear", f"rtc/{prop_}/linear/{fam}/{_name(cfg)}/{sh}of{shards}", prop_, fam=fam, cfg=cfg,
                          shard=sh, nshards=shards, seed=seed, known_labels=kl, **kw))

    def gen(cfg, fam, g, prop_, shards=1, **kw):
        for sh in range(shards):
            out.append(_t(H, "generated", f"rtc/{prop_}/{g}/{fam}/{_name(cfg)}/{sh}of{shards}", prop_, fam=fam, cfg=cfg, gen=g,
                          shard=sh, nshards=shards, seed=seed, known_labels=kl, **kw))

    if prop == "C11":
        # 3 families x {Solver, SolverCacheless} x reuse off/on, SolverStrings on the string family
        q = dict(maxlen=3, body_denom=1, tail_denom=30, rand_count=0, struct=S3) if quick else \
            dict(maxlen=4, body_denom=1, tail_denom=100, rand_count=500, rand_maxlen=40, struct=S3)
        for fam in ("sx", "xy", "mix"):
            for cfg in (S, SC, SR, SCR):
                lin(cfg, fam, "C11", shards=2 if quick else 3, **q)
        qs = dict(maxlen=2, body_denom=1, tail_denom=6, rand_count=0, struct=S3) if quick else \
            dict(maxlen=3, body_denom=1, tail_denom=8, rand_count=100, rand_maxlen=20, struct=S3)
        lin(SS, "str", "C11", shards=2 if quick else 6, **qs)
        lin({"cls": "SolverStrings", "reuse": True}, "str", "C11", shards=2 if quick else 6, **qs)

    elif prop == "C12":
        extra = [{"op": "split_combine", "move": True}]
        q = dict(maxlen=3, body_denom=1, tail_denom=60, rand_count=0, struct=S3) if quick else \
            dict(maxlen=3, body_denom=1, tail_denom=2, rand_count=400, rand_maxlen=40, multi=True, struct=S3,
                 extra_ops=[{"op": "split_combine"}, {"op": "combine"}, {"op": "merge"}])
        lin(COMP, "comp", "C12", shards=4 if quick else 10, extra_templates=extra, **q)
        lin(COMP, "xy", "C12", shards=2 if quick else 4, extra_templates=extra, **q)
        lin(COMP, "mix", "C12", shards=2 if quick else 4, extra_templates=extra, **q)
        gen(COMP, "comp", "gen_diamond", "C12", shards=4 if quick else 8, denom=25 if quick else 1)
        gen(COMP, "comp", "gen_split", "C12", shards=2 if quick else 4, denom=10 if quick else 1, gen_kwargs={"maxadds": 3})
        # composite bookkeeping over ghost children: exhaustive where the real-children runs sample
        lin(GCOMP, "gh", "C12", shards=16, maxlen=4, body_denom=1, tail_denom=1 if quick else 1, rand_count=0 if quick else 2000, rand_maxlen=40,
            struct=[{"op": "simplify"}, {"op": "branch", "move": True}])
        gen(GCOMP, "gh", "gen_cow", "C12", shards=8, denom=2 if quick else 1, gen_kwargs={"maxops": 3, "npre": 2 if quick else 3})
        gen(GCOMP, "gh", "gen_diamond", "C12", shards=2, denom=4 if quick else 1)

    elif prop == "C13":
        q = dict(maxlen=3, body_denom=1, tail_denom=0 if quick else 2, rand_count=0 if quick else 400, rand_maxlen=40, struct=S3)
        for fam in ("sx", "xy", "mix"):
            lin(REPL, fam, "C13", shards=1 if quick else 2, **q)
            lin(HYB, fam, "C13", shards=1 if quick else 2, **q)
        qq = dict(maxlen=2, body_denom=1, tail_denom=2, rand_count=0, struct=S3) if quick else \
            dict(maxlen=3, body_denom=1, tail_denom=4, rand_count=300, rand_maxlen=30, struct=S3)
        for (a, c, r) in ((True, False, True), (True, True, False), (True, True, True), (False, False, False), (False, True, True)):
            for fam in ("xy", "mix") if quick else ("sx", "xy", "mix"):
                lin(repl_cfg(a, c, r), fam, "C13", **qq)
        qa = dict(maxlen=3, body_denom=8 if quick else 1, tail_denom=0 if quick else 20, rand_count=0 if quick else 1000, rand_maxlen=40,
                  reduced=False, struct=S3)
        for fam in ("sx", "xy", "mix"):
            for cfg in (HYB_A, VSA):
                lin(cfg, fam, "C13", **qa)
            lin(HYB_AF, fam, "C13", shards=1 if quick else 2, **q)

    elif prop == "C14":
        for cfg in (S, SC, COMP, REPL, HYB):
            for fam in (("xy", "comp") if quick else ("sx", "xy", "mix", "comp")):
                big = fam == "comp"
                gen(cfg, fam, "gen_tree", "C14", shards=2, denom=(10000 if big else 2000) if quick else (600 if big else 120),
                    rand=None if quick else {"count": 300, "maxlen": 30})
        for cfg in (SR, HYB_A):
            gen(cfg, "xy", "gen_tree", "C14", shards=2, denom=3000 if quick else 300)
        gen(GCOMP, "gh", "gen_cow", "C14", shards=8, denom=2 if quick else 1, gen_kwargs={"maxops": 3, "npre": 2 if quick else 3})
        gen(GCOMP, "gh", "gen_tree", "C14", shards=4, denom=40 if quick else 4)

    elif prop == "C15":
        for cfg in (S, SC, COMP, HYB, REPL):
            for fam in (("comp",) if quick else ("comp", "xy")):
                gen(cfg, fam, "gen_diamond", "C15", shards=1 if quick else 4, denom=70 if quick else 3)
                gen(cfg, fam, "gen_split", "C15", shards=1 if quick else 4, denom=2 if quick else 1, gen_kwargs={"maxadds": 2 if quick else 3})
                gen(cfg, fam, "gen_triple", "C15", gen_kwargs={"count": 150 if quick else 3000})
        gen(GCOMP, "gh", "gen_merge3", "C15", shards=4, denom=1)
        gen(GCHILD, "gh", "gen_combine3", "C15", shards=4, denom=1)
        gen(GCOMP, "gh", "gen_triple", "C15", shards=4, gen_kwargs={"count": 1500 if quick else 20000})
        gen(GCOMP, "gh", "gen_diamond", "C15", shards=2, denom=2 if quick else 1)
        gen(GCOMP, "gh", "gen_split", "C15", shards=2, denom=1, gen_kwargs={"maxadds": 3})

    elif prop == "C16":
        for cfg in ({"cls": "Solver", "kwargs": {"track": True}}, {"cls": "SolverCacheless", "kwargs": {"track": True}},
                    {"cls": "SolverComposite", "kwargs": {"track": True}}, {"cls": "SolverHybrid", "kwargs": {"track": True}}):
            gen(cfg, "core", "gen_cores", "C16", shards=4, denom=1, gen_kwargs={"sizes": [2, 3] if quick else [2, 3, 4]})

    elif prop == "C17":
        for cfg in (S, SC, COMP, HYB, REPL):
            fams = ("sx", "xy") if quick else ("sx", "xy", "mix", "comp")
            if quick and cfg is COMP:
                fams = ("xy", "comp")
            for fam in fams:
                n = 2 if quick else 6
                for sh in range(n):
                    out.append(_t(H, "faults", f"rtc/C17/faults/{fam}/{_name(cfg)}/{sh}of{n}", "C17", fam=fam, cfg=cfg,
                                  denom=(40 if fam == "comp" else 20) if quick else 1, shard=sh, nshards=n, seed=seed, known_labels=kl))

    elif prop == "C18":
        P = "vf.rtc.pickles"
        for sh in range(2):
            out.append(_t(P, "asts", f"rtc/C18/asts/{sh}of2", "C18", replay=P + ":replay_asts", seed=seed, known_labels=kl,
                          nseeds=1 if quick else 4, shard=sh, nshards=2))
        for cfg in (S, SC, COMP, REPL, HYB, VSA, SS):
            fams = ("str",) if cfg is SS else (("xy",) if quick else ("sx", "xy", "comp"))
            for fam in fams:
                st = fam == "str"
                gen(cfg, fam, "gen_pickle", "C18", shards=1 if quick else 2,
                    denom=(150 if quick else 15) if st else (20 if quick else (4 if fam == "comp" else 1)))
                out.append(_t(P, "solvers_xproc", f"rtc/C18/xproc/{fam}/{_name(cfg)}", "C18", replay=P + ":replay_xproc", fam=fam, cfg=cfg,
                              denom=(400 if quick else 40) if st else (40 if quick else 3), seed=seed, known_labels=kl))

    elif prop == "C26":
        V = "vf.rtc.values"
        for sort, n in (("bv", 6), ("fp", 3), ("str", 7)):
            for sh in range(n):
                out.append(_t(V, "boundary", f"rtc/C26/boundary/{sort}/{sh}of{n}", "C26", replay=V + ":replay", sort=sort,
                              shard=sh, nshards=n, seed=seed, known_labels=kl))
    else:
        raise ValueError(f"no rtc tasks for {prop}")
    return out
