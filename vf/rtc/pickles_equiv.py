"""z3 equivalence of two claripy ASTs through claripy's own z3 translation (used for diagnostics only)."""
from __future__ import annotations


def equivalent(a, b):
    """True / False / None (unknown or not convertible)"""
    import claripy
    import z3
    try:
        za = claripy.backends.z3.convert(a)
        zb = claripy.backends.z3.convert(b)
    except Exception:  # noqa: BLE001
        return None
    if z3.eq(za, zb):
        return True
    try:
        s = z3.Solver()
        s.set("timeout", 20000)
        s.add(z3.Distinct(za, zb))
        r = s.check()
    except z3.Z3Exception:
        return None
    return True if r == z3.unsat else (False if r == z3.sat else None)
