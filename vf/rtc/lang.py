"""A tiny expression language shared by the driver and the two reference oracles.

Constraints / query expressions are *strings* (python expression syntax) over a declared set of
variables.  The same string is given three independent meanings:

 * ``cl(vars, s)``   - the claripy AST handed to the solver under test;
 * ``zz(vars, s)``   - a z3 term built directly with z3py (NOT through claripy's backend);
 * ``Enum(vars)``    - truth / value tables over all assignments, computed with python integers
                       (class W: modular arithmetic written out here), no claripy, no z3.

Only named functions are used where python operators mean different things in claripy and z3
(comparisons, shifts, division): ULT ULE UGT UGE SLT SLE SGT SGE LShR.  ``+ - * & | ^ ~ == !=`` and
``<<`` agree.  A witness therefore consists of strings only and is self-contained.

vars: dict name -> width (int, a bit-vector) | "S" (string) | "B" (Boolean).
"""
from __future__ import annotations

import itertools

_cl_ns = {}
_cl_cache = {}
_z3_ns = {}
_z3_cache = {}


def vkey(vars):
    return tuple(sorted(vars.items(), key=lambda kv: kv[0]))


# ------------------------------------------------------------------------------------------------
# claripy meaning

def claripy_ns(vars):
    k = vkey(vars)
    if k in _cl_ns:
        return _cl_ns[k]
    import claripy
    ns = {"__builtins__": {}}
    for n in ("ULT", "ULE", "UGT", "UGE", "SLT", "SLE", "SGT", "SGE", "And", "Or", "Not", "If", "ZeroExt",
              "SignExt", "Extract", "Concat", "LShR", "BVV", "StringV", "StrLen", "StrConcat", "StrContains",
              "StrPrefixOf", "StrSuffixOf", "StrSubstr", "StrIndexOf", "BoolV"):
        ns[n] = getattr(claripy, n)
    ns["TRUE"] = claripy.true()
    ns["FALSE"] = claripy.false()
    for name, w in vars.items():
        if w == "S":
            ns[name] = claripy.StringS(name, explicit_name=True)
        elif w == "B":
            ns[name] = claripy.BoolS(name, explicit_name=True)
        else:
            ns[name] = claripy.BVS(name, w, explicit_name=True)
    _cl_ns[k] = ns
    return ns


def cl(vars, s):
    """string -> claripy AST (ints / bools pass through: concrete solution values)."""
    if not isinstance(s, str):
        return s
    k = (vkey(vars), s)
    r = _cl_cache.get(k)
    if r is None:
        r = eval(s, claripy_ns(vars))  # noqa: S307 - closed namespace, strings come from our alphabets
        _cl_cache[k] = r
    return r


# ------------------------------------------------------------------------------------------------
# z3 meaning (direct)

def z3_ns(vars):
    k = vkey(vars)
    if k in _z3_ns:
        return _z3_ns[k]
    import z3

    def _bv(a, b):
        # coerce python ints to the width of the other operand
        if isinstance(a, int) and not isinstance(a, bool):
            a = z3.BitVecVal(a, b.size())
        if isinstance(b, int) and not isinstance(b, bool):
            b = z3.BitVecVal(b, a.size())
        return a, b

    ns = {"__builtins__": {}}
    ns["ULT"] = lambda a, b: z3.ULT(*_bv(a, b))
    ns["ULE"] = lambda a, b: z3.ULE(*_bv(a, b))
    ns["UGT"] = lambda a, b: z3.UGT(*_bv(a, b))
    ns["UGE"] = lambda a, b: z3.UGE(*_bv(a, b))

    def _s(op):
        def f(a, b):
            a, b = _bv(a, b)
            return op(a, b)
        return f
    ns["SLT"] = _s(lambda a, b: a < b)
    ns["SLE"] = _s(lambda a, b: a <= b)
    ns["SGT"] = _s(lambda a, b: a > b)
    ns["SGE"] = _s(lambda a, b: a >= b)
    ns["And"] = z3.And
    ns["Or"] = z3.Or
    ns["Not"] = z3.Not
    ns["If"] = lambda c, a, b: z3.If(c, *_bv(a, b))
    ns["ZeroExt"] = z3.ZeroExt
    ns["SignExt"] = z3.SignExt
    ns["Extract"] = z3.Extract
    ns["Concat"] = z3.Concat
    ns["LShR"] = lambda a, b: z3.LShR(*_bv(a, b))
    ns["BVV"] = lambda v, w: z3.BitVecVal(v, w)
    ns["BoolV"] = lambda v: z3.BoolVal(bool(v))
    ns["TRUE"] = z3.BoolVal(True)
    ns["FALSE"] = z3.BoolVal(False)
    ns["StringV"] = z3.StringVal
    ns["StrLen"] = lambda s: z3.Int2BV(z3.Length(s), 64)
    ns["StrConcat"] = z3.Concat
    ns["StrContains"] = z3.Contains
    ns["StrPrefixOf"] = z3.PrefixOf
    ns["StrSuffixOf"] = z3.SuffixOf
    ns["StrSubstr"] = lambda start, count, s: z3.SubString(s, z3.BV2Int(start), z3.BV2Int(count))
    ns["StrIndexOf"] = lambda s, pat, start: z3.Int2BV(z3.IndexOf(s, pat, z3.BV2Int(start)), 64)
    for name, w in vars.items():
        if w == "S":
            ns[name] = z3.String(name)
        elif w == "B":
            ns[name] = z3.Bool(name)
        else:
            ns[name] = z3.BitVec(name, w)
    _z3_ns[k] = ns
    return ns


def zz(vars, s):
    k = (vkey(vars), s)
    r = _z3_cache.get(k)
    if r is None:
        r = eval(s, z3_ns(vars))  # noqa: S307
        _z3_cache[k] = r
    return r


# ------------------------------------------------------------------------------------------------
# integer meaning (enumeration)

class W:
    """An n-bit word; arithmetic modulo 2**n written out (the third, solver-free semantics)."""
    __slots__ = ("v", "w")

    def __init__(self, v, w):
        self.w = w
        self.v = v & ((1 << w) - 1)

    def _o(self, o):
        if isinstance(o, W):
            if o.w != self.w:
                raise TypeError("width mismatch")
            return o.v
        return o & ((1 << self.w) - 1)

    def s(self):
        return self.v - (1 << self.w) if self.v >> (self.w - 1) else self.v

    def __add__(self, o): return W(self.v + self._o(o), self.w)
    __radd__ = __add__
    def __sub__(self, o): return W(self.v - self._o(o), self.w)
    def __rsub__(self, o): return W(self._o(o) - self.v, self.w)
    def __mul__(self, o): return W(self.v * self._o(o), self.w)
    __rmul__ = __mul__
    def __and__(self, o): return W(self.v & self._o(o), self.w)
    __rand__ = __and__
    def __or__(self, o): return W(self.v | self._o(o), self.w)
    __ror__ = __or__
    def __xor__(self, o): return W(self.v ^ self._o(o), self.w)
    __rxor__ = __xor__
    def __invert__(self): return W(~self.v, self.w)
    def __neg__(self): return W(-self.v, self.w)

    def __lshift__(self, o):
        n = self._o(o)
        return W(0 if n >= self.w else self.v << n, self.w)

    def __eq__(self, o): return self.v == self._o(o)
    def __ne__(self, o): return self.v != self._o(o)
    def __hash__(self): return hash((self.v, self.w))


def _pair(a, b):
    if not isinstance(a, W):
        a = W(a, b.w)
    if not isinstance(b, W):
        b = W(b, a.w)
    if a.w != b.w:
        raise TypeError("width mismatch")
    return a, b


def _cmp(f, signed):
    def g(a, b):
        a, b = _pair(a, b)
        return f(a.s(), b.s()) if signed else f(a.v, b.v)
    return g


def _if(c, a, b):
    a, b = _pair(a, b) if (isinstance(a, W) or isinstance(b, W)) else (a, b)
    return a if c else b


def _extract(hi, lo, a):
    return W(a.v >> lo, hi - lo + 1)


def _concat(*xs):
    v = 0
    w = 0
    for x in xs:
        v = (v << x.w) | x.v
        w += x.w
    return W(v, w)


def _lshr(a, b):
    a, b = _pair(a, b)
    return W(0 if b.v >= a.w else a.v >> b.v, a.w)


INT_NS = {
    "__builtins__": {},
    "ULT": _cmp(lambda a, b: a < b, False), "ULE": _cmp(lambda a, b: a <= b, False),
    "UGT": _cmp(lambda a, b: a > b, False), "UGE": _cmp(lambda a, b: a >= b, False),
    "SLT": _cmp(lambda a, b: a < b, True), "SLE": _cmp(lambda a, b: a <= b, True),
    "SGT": _cmp(lambda a, b: a > b, True), "SGE": _cmp(lambda a, b: a >= b, True),
    "And": lambda *a: all(a), "Or": lambda *a: any(a), "Not": lambda a: not a, "If": _if,
    "ZeroExt": lambda n, a: W(a.v, a.w + n), "SignExt": lambda n, a: W(a.s(), a.w + n),
    "Extract": _extract, "Concat": _concat, "LShR": _lshr, "BVV": lambda v, w: W(v, w),
    "BoolV": bool, "TRUE": True, "FALSE": False,
}


class Enum:
    """Bit-set tables over all assignments of the declared bit-vector variables (<= 17 bits in all).
    Assignment index = sum(value_k << offset_k), variables in sorted-name order."""

    MAXBITS = 17

    def __init__(self, vars):
        self.names = sorted(vars)
        self.w = {}
        self.off = {}
        o = 0
        for n in self.names:
            wd = vars[n]
            if wd == "B":
                wd = 1
            if not isinstance(wd, int):
                raise ValueError("enumeration needs bit-vector / Boolean variables")
            self.w[n] = wd
            self.off[n] = o
            o += wd
        self.isbool = {n for n in self.names if vars[n] == "B"}
        self.bits = o
        if o > self.MAXBITS:
            raise ValueError("universe too large to enumerate")
        self.N = 1 << o
        self.ALL = (1 << self.N) - 1
        self._tab = {}

    def table(self, s):
        """value -> bit-set of assignments where the expression has that value (bool keys for Boolean e)."""
        t = self._tab.get(s)
        if t is not None:
            return t
        code = compile(s, "<rtc>", "eval")
        used = [n for n in self.names if n in code.co_names]
        free = [n for n in self.names if n not in used]
        # pattern of the free variables: every combination of their values
        F = 0
        for combo in itertools.product(*[range(1 << self.w[n]) for n in free]):
            F |= 1 << sum(v << self.off[n] for n, v in zip(free, combo))
        bases = {}
        env = {}
        for combo in itertools.product(*[range(1 << self.w[n]) for n in used]):
            base = 0
            for n, v in zip(used, combo):
                env[n] = bool(v) if n in self.isbool else W(v, self.w[n])
                base += v << self.off[n]
            r = eval(code, INT_NS, env)  # noqa: S307
            val = r.v if isinstance(r, W) else bool(r)
            bases.setdefault(val, []).append(base)
        t = {}
        for val, bl in bases.items():
            if F == 1:
                ba = bytearray(max(self.N >> 3, 1))
                for b in bl:
                    ba[b >> 3] |= 1 << (b & 7)
                m = int.from_bytes(ba, "little")
            else:
                m = 0
                for b in bl:
                    m |= F << b
            t[val] = m
        self._tab[s] = t
        self._width = getattr(self, "_width", {})
        return t

    def width(self, s):
        """bit width of a BV expression, None for Boolean (evaluated at the all-zero assignment)."""
        env = {n: (False if n in self.isbool else W(0, self.w[n])) for n in self.names}
        r = eval(s, INT_NS, env)  # noqa: S307
        return r.w if isinstance(r, W) else None

    def truth(self, s):
        return self.table(s).get(True, 0)

    def assignment(self, idx):
        return {n: (idx >> self.off[n]) & ((1 << self.w[n]) - 1) for n in self.names}


def names_in(vars, s):
    code = compile(s, "<rtc>", "eval")
    return {n for n in vars if n in code.co_names}
