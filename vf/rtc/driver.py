"""History driver: runs a list of steps on real claripy solver objects, keeps the ghost constraint
set G per solver object, and judges every answer against the reference oracles (vf.rtc.oracle).

cfg (JSON-able):  {"cls": "Solver", "kwargs": {...}, "reuse": bool, "q": {"exact": False}?, "mode": "exact"|"contain"}
step (JSON-able dict, "on" = index of the solver object the step acts on, default 0):
  {"op":"add","c":[str..]}                      {"op":"satisfiable","x":[str..]}
  {"op":"eval","e":str,"n":int,"x":[..]}        {"op":"batch_eval","es":[str..],"n":int,"x":[..]}
  {"op":"min"|"max","e":str,"signed":bool,"x":[..]}
  {"op":"solution","e":str,"v":int|bool|str,"x":[..]}   {"op":"is_true"|"is_false","e":str,"x":[..]}
  {"op":"simplify"} {"op":"downsize"}
  {"op":"branch"} {"op":"new"} {"op":"pickle"}            -> append one new solver object
  {"op":"split_combine"}                                  -> append combine(split()) (one object)
  {"op":"combine","others":[i..]}                         -> append
  {"op":"merge","others":[i..],"conds":[str..],"ancestor":i|None}   -> append
  {"op":"split"}                                          -> append all pieces; C15 partition checks
  {"op":"unsat_core"}                                     -> C16 checks
  {"op":"fault","k":int,"step":{...}}                     -> run the inner step with z3_solver_sat raising at its k-th call
"""
from __future__ import annotations

import fnmatch
import json
import pickle
import re

from . import lang, oracle
from .oracle import Undecided

MAXBITS_ENUM = lang.Enum.MAXBITS


def _mentions_false(G):
    """a concrete FALSE was added to one of the solvers involved: as a member of the expected constraint set, or (merge) inside the expected
    disjunction over the inputs"""
    return "FALSE" in G or any("FALSE" in oracle.show_item(x) for x in G if not isinstance(x, str))


class OracleDisagreement(Exception):
    pass


# ------------------------------------------------------------------------------------------------
# fault injection on the module-level solver-check function

FAULT = {"armed": False, "k": 0, "count": 0, "fired": False, "installed": False, "orig": None}


def install_fault_hook():
    """BackendZ3 methods look `z3_solver_sat` up in the module globals at call time, so replacing the
    module attribute takes effect for _satisfiable/_batch_eval/_extrema/_solution."""
    import claripy
    import claripy.backends.backend_z3 as bz
    if FAULT["installed"] and bz.z3_solver_sat is FAULT.get("wrapper"):
        return
    orig = bz.z3_solver_sat
    if getattr(orig, "_rtc_wrapper", False):
        orig = orig._rtc_orig

    def z3_solver_sat(solver, extra_constraints, occasion):
        if FAULT["armed"]:
            FAULT["count"] += 1
            if FAULT["count"] == FAULT["k"]:
                FAULT["fired"] = True
                raise claripy.errors.ClaripySolverInterruptError("timeout")
        return orig(solver, extra_constraints, occasion)

    z3_solver_sat._rtc_wrapper = True
    z3_solver_sat._rtc_orig = orig
    bz.z3_solver_sat = z3_solver_sat
    FAULT["installed"] = True
    FAULT["wrapper"] = z3_solver_sat
    FAULT["orig"] = orig


def uninstall_fault_hook():
    import claripy.backends.backend_z3 as bz
    if getattr(bz.z3_solver_sat, "_rtc_wrapper", False):
        bz.z3_solver_sat = bz.z3_solver_sat._rtc_orig
    FAULT["installed"] = False


# ------------------------------------------------------------------------------------------------

def make_refs(vars, want_z3=True):
    refs = []
    bv = all(isinstance(w, int) or w == "B" for w in vars.values())
    bits = sum((1 if w == "B" else w) for w in vars.values()) if bv else None
    if bv and bits <= MAXBITS_ENUM:
        refs.append(oracle.EnumRef(vars))
    if want_z3 or not refs:
        refs.append(oracle.Z3Ref(vars))
    return refs


_refs_cache = {}


def refs_for(vars):
    k = lang.vkey(vars)
    if k not in _refs_cache:
        _refs_cache[k] = make_refs(vars)
    return _refs_cache[k]


_ghost_worlds = {}


def make_solver(cfg, vars=None, world=None):
    import claripy
    if cfg.get("ghost"):
        # real SolverComposite over ghost (enumeration) children: vf/rtc/ghost.py
        from . import ghost
        if world is None:
            world = ghost.World(vars)
        track = bool((cfg.get("kwargs") or {}).get("track"))
        if cfg["cls"] == "GhostChild":
            s = ghost.GhostCompositeChild(world=world, track=track)         # the real child mixin stack itself
        else:
            s = claripy.SolverComposite(template_solver=ghost.GhostCompositeChild(world=world, track=track), track=track)
        s._vf_world = world
        return s
    cls = getattr(claripy, cfg["cls"])
    kw = dict(cfg.get("kwargs") or {})
    inner = kw.pop("actual", None)
    if inner is not None:                   # SolverReplacement over a named frontend class
        kw["actual_frontend"] = getattr(claripy, inner)()
    return cls(**kw)


def known(label, known_labels):
    for k in known_labels or ():
        if k == label or (("*" in k or "?" in k) and fnmatch.fnmatchcase(label, k)):
            return True
    return False


def _jsonable(v):
    try:
        json.dumps(v)
        return v
    except TypeError:
        if isinstance(v, (list, tuple, set, frozenset)):
            return [_jsonable(x) for x in v]
        return repr(v)


def _sorted_items(G):
    return sorted(G, key=repr)


class Failure(dict):
    pass


class Run:
    """One history on real solver objects."""

    def __init__(self, cfg, vars, refs=None, xcheck=True, initial=None):
        import claripy
        self.claripy = claripy
        self.cfg = cfg
        self.vars = vars
        self.refs = refs if refs is not None else refs_for(vars)
        if not xcheck:
            self.refs = self.refs[:1]
        self.mode = cfg.get("mode", "exact")
        self.q = dict(cfg.get("q") or {})
        self.solvers = [make_solver(cfg, vars)]
        self.world = getattr(self.solvers[0], "_vf_world", None)
        if self.world is not None:
            self.world.solvers = self.solvers
        self.G = [frozenset()]
        self.meta = [{}]
        self.added = [[]]            # ASTs handed to add(), per solver (for C16 membership)
        self.faulted = None
        self.checks = 0              # judged answers
        self.nontrivial = False      # a query answered after at least one add
        self.noanswer = 0
        self.transcript = []
        if initial is not None:      # start from an existing object (cross-process pickling)
            self.solvers = [initial["solver"]]
            self.G = [frozenset(initial["G"])]
            self.meta = [dict(initial.get("meta") or {})]
            self.added = [[lang.cl(vars, c) for c in initial.get("added", [])]]

    # --- helpers
    def cl(self, s):
        return lang.cl(self.vars, s)

    def _prefix(self, on):
        p = ""
        if self.cfg.get("reuse") and len(self.solvers) > 1:
            p += "reuse/"       # reuse_z3_solver with more than one solver object alive
        if self._mode_for(getattr(self, "_cur_step", None)) == "contain":
            p += "approx/"
        if self.cfg["cls"] == "SolverReplacement" and (self.cfg.get("kwargs") or {}).get("complex_auto_replace"):
            p += "ropt/"        # non-default option complex_auto_replace=True
        if self.meta[on].get("merged"):
            p += "merged/"      # the object is the result of merge()
        if self._has_replacements(on):
            p += "replaced/"    # a ReplacementFrontend that has recorded at least one replacement
        if self.faulted:
            p += f"fault[{self.faulted}]/"
        if self.meta[on].get("unpickled"):
            p += "unpickled/"
        return p

    def _mode_for(self, st):
        """mode 'af' (SolverHybrid(approximate_first=True)): only eval/batch_eval with n > 2 and exact=None take
        the approximate path (HybridFrontend.eval); everything else is answered by the exact frontend"""
        if self.mode != "af":
            return self.mode
        if st is not None and st.get("op") in ("eval", "batch_eval") and st.get("n", 0) > 2:
            return "contain"
        return "exact"

    def _state_qualifier(self, on):
        """run-time check of SatCacheMixin's representation invariant (_cached_satness is True => Mod(G) != {}):
        a failing answer given while the invariant is broken is attributed to it"""
        s = self.solvers[on]
        if self.cfg["cls"] == "SolverReplacement":
            return ""       # its actual frontend holds rewritten constraints: the ghost set says nothing about that cache
        try:
            if self.refs[0].sat(self.G[on], ()) is False:
                for o in (s, getattr(s, "_exact_frontend", None)):
                    if o is not None and getattr(o, "_cached_satness", None) is True:
                        return "@satcache-true"
        except Exception:  # noqa: BLE001
            pass
        return ""

    def _has_replacements(self, on):
        s = self.solvers[on] if on < len(self.solvers) else None
        if s is None or self.cfg["cls"] != "SolverReplacement":
            return False
        try:
            return len(s._replacements) > 0
        except Exception:  # noqa: BLE001
            return False

    def _call(self, f, *a, **kw):
        try:
            return ("ret", f(*a, **kw))
        except Exception as e:  # noqa: BLE001 - every exception of the code under test is an outcome
            ce = self.claripy.errors
            return ("exc", {"type": type(e).__name__, "unsat": isinstance(e, ce.UnsatError),
                            "claripy": isinstance(e, ce.ClaripyError), "msg": str(e)[:200],
                            "gaveup": isinstance(e, (ce.ClaripyZ3Error, ce.ClaripySolverInterruptError))})

    def _judge(self, on, st, outcome):
        """evaluate judge() with every reference; they must agree"""
        G = self.G[on]
        res = []
        for ref in self.refs:
            res.append(judge(ref, self._mode_for(st), G, st, outcome))
        lab0 = res[0][0]
        for r in res[1:]:
            if r[0] != lab0:
                raise OracleDisagreement(
                    f"references disagree on step {json.dumps(st)} with G={[oracle.show_item(i) for i in _sorted_items(G)]}: "
                    f"{self.refs[0].name} says {res[0]}, {self.refs[1].name} says {r}; outcome {outcome}")
        return res[0]

    def _fail(self, i, on, label, expected, got, detail="", benign=False):
        # a benign failure (right value, wrong representation) says nothing about the circumstances: no prefix
        pre = self._prefix(on)
        return Failure(step=i, label=label if benign else pre + label, expected=_jsonable(expected), got=_jsonable(got),
                       detail=detail, benign=benign, circumstance=pre)

    # --- the step function
    def step(self, i, st):
        """returns a list of Failure (usually empty)"""
        op = st["op"]
        on = st.get("on", 0)
        s = self.solvers[on]
        G = self.G[on]
        q = self.q
        if op != "fault":
            self._cur_step = st
        X = tuple(st.get("x") or ())
        Xc = tuple(self.cl(x) for x in X)

        if op == "fault":
            return self._fault(i, st)

        if op == "add":
            cs = [self.cl(c) for c in st["c"]]
            out = self._call(s.add, cs if len(cs) != 1 or st.get("aslist") else cs[0])
            self.transcript.append((i, st, out[0] if out[0] == "exc" else "ok", out[1] if out[0] == "exc" else None))
            # the constraints are part of G whatever add() answered
            self.G[on] = G | frozenset(st["c"])
            self.added[on] = self.added[on] + cs
            if out[0] == "exc":
                if FAULT["fired"]:
                    return [("exc", out[1])]
                return [self._fail(i, on, f"add/exception-{out[1]['type']}", "no exception", out[1])]
            return []

        if op in ("simplify", "downsize"):
            out = self._call(getattr(s, op))
            self.transcript.append((i, st, out[0], out[1] if out[0] == "exc" else None))
            if out[0] == "exc":
                if FAULT["fired"]:
                    return [("exc", out[1])]
                return [self._fail(i, on, f"{op}/exception-{out[1]['type']}", "no exception", out[1])]
            return []

        if op in ("branch", "new", "pickle", "split_combine", "combine", "merge"):
            return self._structural(i, st)

        if op == "split":
            return self._split(i, st)

        if op == "unsat_core":
            return self._unsat_core(i, st)

        # ---- queries
        pre_qual = self._state_qualifier(on)       # invariant check in the PRE-state of the call
        if op == "satisfiable":
            out = self._call(s.satisfiable, extra_constraints=Xc, **q)
        elif op == "eval":
            out = self._call(s.eval, self.cl(st["e"]), st["n"], extra_constraints=Xc, **q)
        elif op == "batch_eval":
            out = self._call(s.batch_eval, [self.cl(e) for e in st["es"]], st["n"], extra_constraints=Xc, **q)
        elif op in ("min", "max"):
            out = self._call(getattr(s, op), self.cl(st["e"]), extra_constraints=Xc, signed=bool(st.get("signed")), **q)
        elif op == "solution":
            out = self._call(s.solution, self.cl(st["e"]), st["v"], extra_constraints=Xc, **q)
        elif op in ("is_true", "is_false"):
            out = self._call(getattr(s, op), self.cl(st["e"]), extra_constraints=Xc, **q)
        else:
            raise ValueError(f"unknown op {op}")
        if out[0] == "ret":
            v = out[1]
            if op == "batch_eval":
                v = [tuple(t) for t in v]
            elif op == "eval":
                v = list(v)
            out = ("ret", v)
        self.transcript.append((i, st, out[0], out[1]))
        if FAULT["fired"]:
            return [out]          # judged by _fault
        label, expected, benign = self._judge(on, st, out)
        if label == "noanswer":
            self.noanswer += 1
            return []
        self.checks += 1
        if G:
            self.nontrivial = True
        if label is None:
            return []
        if not benign:
            label += pre_qual
        return [self._fail(i, on, label, expected, out[1], benign=benign)]

    # --- structural steps
    def _structural(self, i, st):
        op = st["op"]
        on = st.get("on", 0)
        s = self.solvers[on]
        G = self.G[on]
        meta = dict(self.meta[on])
        added = list(self.added[on])
        check_equiv = False
        if op == "branch":
            out = self._call(s.branch)
            newG = G
        elif op == "new":
            out = self._call(make_solver, self.cfg, self.vars, self.world)
            newG = frozenset()
            meta = {}
            added = []
        elif op == "pickle":
            out = self._call(lambda: pickle.loads(pickle.dumps(s, -1)))
            newG = G
            meta["unpickled"] = True
        elif op == "split_combine":
            def f():
                pieces = s.split()
                if not pieces:
                    return s.branch()
                return pieces[0].combine(pieces[1:])
            out = self._call(f)
            newG = G
            check_equiv = True
        elif op == "combine":
            others = [self.solvers[j] for j in st["others"]]
            out = self._call(s.combine, others)
            newG = G
            for j in st["others"]:
                newG = newG | self.G[j]
                added += self.added[j]
            check_equiv = True
        elif op == "merge":
            others = [self.solvers[j] for j in st["others"]]
            conds = [self.cl(c) for c in st["conds"]]
            anc = st.get("ancestor")
            if anc is None:
                out = self._call(lambda: s.merge(others, conds)[1])
                alts = []
                for c, j in zip(st["conds"], [on, *st["others"]]):
                    alts.append((c, *_sorted_items(self.G[j])))
                newG = frozenset([("or", tuple(alts))])
            else:
                out = self._call(lambda: s.merge(others, conds, common_ancestor=self.solvers[anc])[1])
                newG = self.G[anc] | frozenset([("or", tuple((c,) for c in st["conds"]))])
            check_equiv = True
            meta["merged"] = True
        self.transcript.append((i, st, out[0], out[1] if out[0] == "exc" else None))
        if out[0] == "exc":
            # keep indices stable: the failed object is replaced by a fresh branch-less placeholder
            self.solvers.append(None)
            self.G.append(newG)
            self.meta.append(meta)
            self.added.append(added)
            return [self._fail(i, on, f"{op}/exception-{out[1]['type']}", "no exception", out[1])]
        self.solvers.append(out[1])
        self.G.append(newG)
        self.meta.append(meta)
        self.added.append(added)
        if check_equiv:
            if op == "merge" and all(c == "TRUE" for c in st["conds"]):
                # trivial merge conditions mention no variable: the listed finding about conditions over shared children does
                # not apply, so a wrong model set here gets a label of its own
                op = "merge[conditions-true]"
            # a composite input whose _unsat flag is set holds a concrete False (the flag is set by adding a concretely false constraint, or by a merge
            # whose result is concretely False): the same situation as a FALSE in the expected constraint set
            self._flagged = any(getattr(x, "_unsat", False) for x in [s, *(others if op.startswith(("merge", "combine")) else [])])
            try:
                f = self._equiv(i, on, op, out[1], newG)
            finally:
                self._flagged = False
            if f:
                return [f]
        return []

    def _ghost_mask(self, refmask):
        """translate an EnumRef bit-set (assignment index = sum(value << offset), sorted names) into the ghost world's indexing
        (itertools.product order over sorted names)"""
        tr = getattr(self, "_tr", None)
        if tr is None:
            ref = next(r for r in self.refs if isinstance(r, oracle.EnumRef))
            en = ref.en
            tr = []
            for ai, asg in enumerate(self.world.assignments):
                tr.append(sum(v << en.off[n] for n, v in zip(self.world.names, asg)))
            self._tr = tr
        m = 0
        for ai, ri in enumerate(tr):
            if refmask >> ri & 1:
                m |= 1 << ai
        return m

    def _z3ref(self):
        for r in self.refs:
            if isinstance(r, oracle.Z3Ref):
                return r
        r = oracle.Z3Ref(self.vars)
        self.refs.append(r)
        return r

    def _equiv(self, i, on, op, result, G):
        """documented meaning of merge/combine/split: Mod(result.constraints) == Mod(G), decided by z3 on
        claripy's own translation of result.constraints against the direct translation of the ghost."""
        if self.world is not None:
            # ghost runs: both sides by enumeration
            m = self.world.ALL
            for c in result.constraints:
                m &= self.world.truth(c)
            if getattr(result, "_unsat", False):
                m = 0
            ref = next(r for r in self.refs if isinstance(r, oracle.EnumRef))
            want = ref.models(G)
            self.checks += 1
            if G:
                self.nontrivial = True
            if self._ghost_mask(want) != m:
                qual = "+false" if (_mentions_false(G) or getattr(self, "_flagged", False)) else ""
                return self._fail(i, on, f"{op}/model-set{qual}", [oracle.show_item(x) for x in _sorted_items(G)],
                                  [str(c) for c in result.constraints], detail="model sets differ (enumeration)")
            return None
        be = self.claripy.backends.z3
        try:
            terms = [be.convert(c) for c in result.constraints]
        except Exception as e:  # noqa: BLE001
            return self._fail(i, on, f"{op}/constraints-unconvertible", "convertible constraints", repr(e))
        # a composite that recorded a concrete False keeps it in a flag
        if getattr(result, "_unsat", False):
            import z3
            terms.append(z3.BoolVal(False))
        ok, model = self._z3ref().equivalent(G, terms)
        self.checks += 1
        if G:
            self.nontrivial = True
        if ok is None:
            raise Undecided("z3 unknown in equivalence check")
        if not ok:
            qual = "+false" if (_mentions_false(G) or getattr(self, "_flagged", False)) else ""
            return self._fail(i, on, f"{op}/model-set{qual}", [oracle.show_item(x) for x in _sorted_items(G)],
                              [str(c) for c in result.constraints], detail=f"distinguishing assignment {model}")
        return None

    def _split(self, i, st):
        on = st.get("on", 0)
        s = self.solvers[on]
        G = self.G[on]
        before = list(s.constraints)
        out = self._call(s.split)
        self.transcript.append((i, st, out[0], None if out[0] == "exc" else len(out[1])))
        if out[0] == "exc":
            return [self._fail(i, on, f"split/exception-{out[1]['type']}", "no exception", out[1])]
        pieces = list(out[1])
        fails = []
        self.checks += 1
        if G:
            self.nontrivial = True
        # (a) pairwise disjoint variable sets
        vs = [set(p.variables) for p in pieces]
        for a in range(len(vs)):
            for b in range(a + 1, len(vs)):
                if vs[a] & vs[b]:
                    fails.append(self._fail(i, on, "split/shared-variable", "disjoint variable sets",
                                            [sorted(v) for v in vs]))
        # (b) every conjunct of s exactly once (conjuncts as the solver held them before the call)
        def conj(cs):
            o = []
            for c in cs:
                o.extend(list(c.args) if c.op == "And" else [c])
            return sorted(c.hash() for c in o if not (c.op == "BoolV" and c.args[0] is True))
        got = conj([c for p in pieces for c in p.constraints])
        want = conj(before)
        if got != want and not fails:
            fails.append(self._fail(i, on, "split/conjuncts", f"{len(want)} conjuncts, each exactly once",
                                    {"before": [str(c) for c in before],
                                     "pieces": [[str(c) for c in p.constraints] for p in pieces]}))
        # (c) together equivalent to s: each piece gets the ghost items over its variables; every ghost
        #     item must fall into exactly one piece (or mention no variable)
        rest = set(G)
        for p, v in zip(pieces, vs):
            if v:
                mine = frozenset(it for it in G if oracle.item_names(self.vars, it) and oracle.item_names(self.vars, it) <= v)
            else:       # the piece holding the variable-free conjuncts
                mine = frozenset(it for it in G if not oracle.item_names(self.vars, it))
            rest -= mine
            self.solvers.append(p)
            self.G.append(mine)
            self.meta.append(dict(self.meta[on]))
            self.added.append(list(self.added[on]))
        rest = {it for it in rest if oracle.item_names(self.vars, it)}
        if not fails:
            # whole-conjunction equivalence (robust when ghost items straddle pieces, e.g. after simplify)
            class _All:
                constraints = [c for p in pieces for c in p.constraints]
                _unsat = any(getattr(p, "_unsat", False) for p in pieces)
            Gv = frozenset(it for it in G if oracle.item_names(self.vars, it)) if not any(
                it in ("FALSE",) for it in G) else G
            self._flagged = bool(getattr(s, "_unsat", False))
            try:
                f = self._equiv(i, on, "split", _All, Gv)
            finally:
                self._flagged = False
            if f:
                fails.append(f)
        if rest and not fails:
            # pieces do not separate the ghost items: their own ghost sets are then not meaningful
            for k in range(len(pieces)):
                self.meta[len(self.solvers) - 1 - k]["ghost_unreliable"] = True
        return fails[:1]

    def _unsat_core(self, i, st):
        on = st.get("on", 0)
        s = self.solvers[on]
        G = self.G[on]
        out = self._call(s.unsat_core)
        self.transcript.append((i, st, out[0], out[1] if out[0] == "exc" else [str(c) for c in _aslist(out[1])]))
        if out[0] == "exc":
            return [self._fail(i, on, f"unsat_core/exception-{out[1]['type']}", "no exception", out[1])]
        core = _aslist(out[1])
        self.checks += 1
        if G:
            self.nontrivial = True
        sat = self.refs[0].sat(G, ())
        for r in self.refs[1:]:
            if r.sat(G, ()) != sat:
                raise OracleDisagreement("references disagree on satisfiability")
        Bool = self.claripy.ast.Bool
        shown = [str(c) for c in core]
        if sat:
            if len(core) != 0:
                return [self._fail(i, on, "unsat_core/nonempty-on-sat", [], shown)]
            return []
        for el in core:
            if not isinstance(el, Bool):
                return [self._fail(i, on, "unsat_core/element-type", "every element a claripy Bool AST",
                                   [type(el).__name__ + ":" + str(el) for el in core])]
        hashes = {c.hash() for c in self.added[on]}
        for el in core:
            if el.hash() not in hashes:
                # an added constraint in simplified form?  (simplify() rewrites the stored constraints)
                from . import pickles_equiv
                lab = "unsat_core/not-member"
                if any(pickles_equiv.equivalent(el, c) for c in self.added[on]):
                    lab = "unsat_core/member-only-up-to-rewriting"
                return [self._fail(i, on, lab, [str(c) for c in self.added[on]], shown)]
        # conjunction unsatisfiable: fresh z3 over claripy's translation AND via the ghost strings
        back = {self.cl(c).hash(): c for c in G if isinstance(c, str)}
        sub = frozenset(back[el.hash()] for el in core if el.hash() in back)
        res = [r.sat(sub, ()) for r in self.refs]
        if any(x is None for x in res):
            raise Undecided("z3 unknown on core")
        if len(set(res)) != 1:
            raise OracleDisagreement("references disagree on the core")
        if res[0]:
            return [self._fail(i, on, "unsat_core/conjunction-sat", "an unsatisfiable subset", shown)]
        return []

    def _fault(self, i, st):
        inner = dict(st["step"])
        on = inner.get("on", 0)
        install_fault_hook()
        FAULT.update(armed=True, k=st["k"], count=0, fired=False)
        try:
            res = self.step(i, inner)
        finally:
            FAULT["armed"] = False
        fired = FAULT["fired"]
        FAULT["fired"] = False
        self.last_fault_fired = fired
        self.last_fault_calls = FAULT["count"]
        if not fired:
            return res                      # fewer than k checks happened: an ordinary, judged step
        out = res[0] if res else ("ret", None)
        self.checks += 1
        f = None
        if isinstance(out, Failure):
            f = out
        elif not (out[0] == "exc" and out[1]["claripy"]):
            f = self._fail(i, on, f"fault/no-claripy-error[{inner['op']}]", "a ClaripyError", out[1])
        self.faulted = inner["op"]
        return [f] if f else []


def _aslist(v):
    try:
        return list(v)
    except TypeError:
        return [v]


# ------------------------------------------------------------------------------------------------
# the judge: the specification of the public methods, written once against the oracle interface

def _need(v):
    if v is None:
        raise Undecided("reference could not decide")
    return v


def _exp_values(ref, G, X, e):
    try:
        vs = ref.values(G, X, e)
        return vs if len(vs) <= 24 else vs[:24] + ["... %d values" % len(vs)]
    except Exception:  # noqa: BLE001
        return "?"


def judge(ref, mode, G, st, outcome):
    """-> (label | None | 'noanswer', expected-for-the-message, benign)"""
    op = st["op"]
    X = tuple(st.get("x") or ())
    kind, val = outcome
    qual = ("+signed" if st.get("signed") else "") + ("+extra" if X else "")
    contain = mode == "contain"

    if kind == "exc" and not val["unsat"]:
        if val.get("gaveup") or (contain and val["claripy"]):
            # the backend gave up (C17: a claripy error instead of an answer), or an approximate frontend declined
            return "noanswer", None, False
        return f"{op}/exception-{val['type']}{qual}", "an answer", False

    sat = _need(ref.sat(G, X))

    if op == "satisfiable":
        if kind == "exc":
            return (None, None, False) if not sat else (f"satisfiable/unsaterror-on-sat{qual}", True, False)
        got = bool(val)
        if got == sat:
            return None, None, False
        if got and contain:
            return None, None, False
        return f"satisfiable/{'true-on-unsat' if got else 'false-on-sat'}{qual}", sat, False

    if op in ("eval", "batch_eval"):
        es = [st["e"]] if op == "eval" else list(st["es"])
        n = st["n"]
        conc = "+concrete" if all(not lang.names_in(ref.vars, e) for e in es) else ""
        def expd_():
            return _exp_values(ref, G, X, es[0]) if op == "eval" else None
        if kind == "exc":
            return (None, None, False) if not sat else (f"{op}/unsaterror-on-sat{qual}", expd_(), False)
        tuples = [(v,) for v in val] if op == "eval" else [tuple(t) for t in val]
        if contain:
            if len(tuples) < n and not _need(ref.complete(G, X, es, tuples)):
                return f"{op}/excludes-feasible{qual}", expd_(), False
            return None, None, False
        if not sat:
            return f"{op}/no-unsaterror{conc}{qual}", "UnsatError", False
        for t in tuples:
            if len(t) != len(es) or not _need(ref.feasible(G, X, es, t)):
                return f"{op}/infeasible-value{qual}", expd_(), False
        if len(set(tuples)) != len(tuples):
            return f"{op}/duplicate{qual}", expd_(), False
        if len(tuples) > n:
            return f"{op}/too-many{qual}", expd_(), False
        if len(tuples) < n and not _need(ref.complete(G, X, es, tuples)):
            return f"{op}/too-few{qual}", expd_(), False
        return None, None, False

    if op in ("min", "max"):
        e = st["e"]
        signed = bool(st.get("signed"))
        is_max = op == "max"
        if kind == "exc":
            return (None, None, False) if not sat else (f"{op}/unsaterror-on-sat{qual}", "a value", False)
        if not sat:
            if contain:
                return None, None, False
            return f"{op}/no-unsaterror{qual}", "UnsatError", False
        if isinstance(val, bool) or not isinstance(val, int):
            return f"{op}/bad-type{qual}", "int", False
        w = ref.width(e)
        pat = val % (1 << w)

        def exp():
            try:
                return ref.optimum(G, X, e, signed, is_max)
            except Exception:  # noqa: BLE001
                return "?"
        if contain:
            if val >= (1 << w) or val < -(1 << (w - 1)):
                return None, None, False
            if _need(ref.better_exists(G, X, e, pat, signed, is_max)):
                return f"{op}/excludes-feasible{qual}", exp(), False
            return None, None, False
        if val >= (1 << w) or val < -(1 << (w - 1)):
            return f"{op}/wrong-optimum{qual}", exp(), False
        if not _need(ref.feasible(G, X, [e], [pat])) or _need(ref.better_exists(G, X, e, pat, signed, is_max)):
            return f"{op}/wrong-optimum{qual}", exp(), False
        # the statement asks for the optimum "as an n-bit pattern": the value is compared modulo 2^n; the Python
        # representation of a signed answer (signed integer vs. bit pattern) differs between frontends and is not judged
        return None, None, False

    if op == "solution":
        if kind == "exc":
            return (None, None, False) if not sat else (f"solution/unsaterror-on-sat{qual}", "a Boolean", False)
        exp = _need(ref.feasible(G, X, [st["e"]], [st["v"]]))
        got = bool(val)
        if got == exp or (contain and got):
            return None, None, False
        conc = "+concrete" if not lang.names_in(ref.vars, st["e"]) else ""
        return f"solution/{'true-on-infeasible' if got else 'false-on-feasible'}{conc}{qual}", exp, False

    if op in ("is_true", "is_false"):
        if kind == "exc":
            return (None, None, False) if not sat else (f"{op}/unsaterror-on-sat{qual}", "a Boolean", False)
        if not val:
            return None, None, False
        if _need(ref.valid(G, X, st["e"], positive=(op == "is_true"))):
            return None, None, False
        return f"{op}/true-but-not-valid{qual}", False, False

    raise ValueError(op)


# ------------------------------------------------------------------------------------------------
# running whole histories

def run_history(cfg, vars, steps, xcheck=True, stop_on_failure=True, initial=None, keep=False):
    """-> dict(failures=[Failure], checks=int, nontrivial=bool, undecided=str|None, transcript=[...])
    Benign failures (answer right, representation off) do not stop the history."""
    import claripy
    be = claripy.backends.z3
    old_reuse = be.reuse_z3_solver
    be.reuse_z3_solver = bool(cfg.get("reuse"))
    if cfg.get("reuse"):
        try:
            be._tls.solver = None
        except Exception:  # noqa: BLE001
            pass
    run = None
    fails = []
    undecided = None
    try:
        run = Run(cfg, vars, xcheck=xcheck, initial=initial)
        for i, st in enumerate(steps):
            on = st.get("on", 0) if st["op"] != "fault" else st["step"].get("on", 0)
            if on >= len(run.solvers) or run.solvers[on] is None:
                break                       # the object was never produced (an earlier step failed)
            if run.meta[on].get("ghost_unreliable") and st["op"] not in ("add",):
                continue
            try:
                fs = run.step(i, st)
            except Undecided as u:
                undecided = f"{u} (step {i}: {fmt_step(st)})"
                break
            fs = [f for f in fs if isinstance(f, Failure)]
            fails.extend(fs)
            if stop_on_failure and any(not f["benign"] for f in fs):
                break
    finally:
        be.reuse_z3_solver = old_reuse
        FAULT["armed"] = False
        FAULT["fired"] = False
    return {"failures": fails, "checks": run.checks if run else 0, "nontrivial": bool(run and run.nontrivial),
            "undecided": undecided, "transcript": run.transcript if run else [], "noanswer": run.noanswer if run else 0,
            "fault_fired": getattr(run, "last_fault_fired", None), "fault_calls": getattr(run, "last_fault_calls", None),
            "run": run if keep else None}


_PREFIX = re.compile(r"(reuse/|fault\[[a-z_]+\]/|unpickled/|xproc/)")


def base_label(label):
    return _PREFIX.sub("", label)


def neutral(cfg, steps):
    """the same history without the special circumstances: no solver reuse, the faulted operation completes,
    a pickle round trip becomes a plain branch()"""
    cfg2 = {k: v for k, v in cfg.items() if k != "reuse"}
    out = []
    for st in steps:
        if st["op"] == "fault":
            out.append(dict(st["step"]))
        elif st["op"] == "pickle":
            out.append(dict(st, op="branch"))
        else:
            out.append(st)
    return cfg2, out


def relabel(cfg, vars, steps, failures):
    """A failure observed under reuse / after a fault / on an unpickled object keeps that prefix only if the
    neutral history does not fail in the same way at the same step (differential attribution)."""
    todo = [f for f in failures if base_label(f["label"]) != f["label"]]
    if not todo:
        return failures
    r2 = None
    for f in todo:
        b = base_label(f["label"])
        if f.get("benign"):
            f["circumstance"] = f["label"]
            f["label"] = b
            continue
        if r2 is None:
            cfg2, steps2 = neutral(cfg, steps)
            try:
                r2 = run_history(cfg2, vars, steps2)
            except OracleDisagreement:
                r2 = {"failures": []}
        if any(g["step"] == f["step"] and base_label(g["label"]) == b for g in r2["failures"]):
            f["circumstance"] = f["label"]
            f["label"] = b
    return failures


def witness(cfg, vars, steps, f):
    return {"vars": vars, "cfg": cfg, "steps": steps[: f["step"] + 1], "fail_step": f["step"],
            "failing_call": steps[f["step"]], "expected": f["expected"], "got": f["got"]}


def fmt_step(st):
    st = dict(st)
    op = st.pop("op")
    on = st.pop("on", 0)
    if op == "fault":
        return f"[fault at z3 check #{st['k']}] " + fmt_step(st["step"])
    args = ", ".join(f"{k}={json.dumps(v)}" for k, v in st.items())
    return f"s{on}.{op}({args})"


def replay(task, failure):
    """native replay of failure['witness'] on the real claripy (fresh objects, both references)."""
    w = failure["witness"]
    vars = {k: (v if not isinstance(v, list) else tuple(v)) for k, v in w["vars"].items()}
    r = run_history(w["cfg"], vars, w["steps"], xcheck=True)
    lines = [f"solver under test: claripy.{w['cfg']['cls']}({w['cfg'].get('kwargs') or ''}) reuse_z3_solver={bool(w['cfg'].get('reuse'))} "
             f"query kwargs={w['cfg'].get('q') or {}}  variables={w['vars']}"]
    for (i, st, kind, val) in r["transcript"]:
        lines.append(f"  {i}: {fmt_step(st)} -> {kind} {json.dumps(_jsonable(val), default=str)[:300]}")
    relabel(w["cfg"], vars, w["steps"], r["failures"])
    hit = [f for f in r["failures"] if f["label"] == failure["label"] and f["step"] == w["fail_step"]]
    anyf = [f for f in r["failures"] if not f["benign"] or f["label"] == failure["label"]]
    if hit:
        f = hit[0]
        lines.append(f"  FAILED clause {f['label']} at step {f['step']}: reference expects {json.dumps(f['expected'], default=str)[:300]}, "
                     f"claripy answered {json.dumps(f['got'], default=str)[:300]} {f.get('detail', '')}")
        return {"reproduced": True, "text": "\n".join(lines)}
    if r["undecided"]:
        lines.append("  reference undecided: " + r["undecided"])
    elif anyf:
        lines.append(f"  a different clause failed: {anyf[0]['label']} at step {anyf[0]['step']}")
    else:
        lines.append("  all answers match the reference now")
    return {"reproduced": False, "text": "\n".join(lines)}
