"""Two stateless reference oracles over the ghost constraint set.

A ghost set G is a frozenset of *items*; an item is a constraint string of vf.rtc.lang, or a nested
tuple ("or", ((item, ...), (item, ...), ...)) meaning  OR_i AND_j item_ij  (the documented meaning of
merge).  X is a tuple of constraint strings (the extra constraints of one call).

 * EnumRef - exact, by enumeration of all assignments with python integers (no claripy, no z3).
 * Z3Ref   - a FRESH z3 solver per question over terms built directly from the strings (no claripy).

Both answer the same primitive questions; the judge (driver.judge) is written once against this
interface and is evaluated with both.  A primitive returns None when it cannot decide (z3 'unknown'):
the caller must then report *undecided*, never a violation.
"""
from __future__ import annotations

from . import lang


class Undecided(Exception):
    pass


def item_names(vars, item):
    if isinstance(item, str):
        return lang.names_in(vars, item)
    out = set()
    for conj in item[1]:
        for it in conj:
            out |= item_names(vars, it)
    return out


def show_item(item):
    if isinstance(item, str):
        return item
    return "Or(" + ", ".join("And(" + ", ".join(show_item(i) for i in conj) + ")" for conj in item[1]) + ")"


class EnumRef:
    name = "enum"

    def __init__(self, vars):
        self.vars = vars
        self.en = lang.Enum(vars)
        self._im = {}
        self._gm = {}

    # --- model sets as bit-sets
    def item_mask(self, item):
        m = self._im.get(item)
        if m is None:
            if isinstance(item, str):
                m = self.en.truth(item)
            else:
                m = 0
                for conj in item[1]:
                    c = self.en.ALL
                    for it in conj:
                        c &= self.item_mask(it)
                    m |= c
            self._im[item] = m
        return m

    def models(self, G, X=()):
        k = (G, X)
        m = self._gm.get(k)
        if m is None:
            m = self.en.ALL
            for it in G:
                m &= self.item_mask(it)
            for x in X:
                m &= self.item_mask(x)
            if len(self._gm) > 200000:
                self._gm.clear()
            self._gm[k] = m
        return m

    # --- primitives
    def sat(self, G, X=()):
        return self.models(G, X) != 0

    def feasible(self, G, X, es, vals):
        """is there a model in which every es[i] has value vals[i]"""
        m = self.models(G, X)
        for e, v in zip(es, vals):
            m &= self._vm(e, v)
            if not m:
                return False
        return m != 0

    def _vm(self, e, v):
        """bit-set of the assignments where e has exactly the python value v (sort-strict: a Boolean
        expression only has bool values, a bit-vector only n-bit non-negative ints)"""
        t = self.en.table(e)
        isb = isinstance(next(iter(t)), bool)
        if isb != isinstance(v, bool) or not isinstance(v, (bool, int)):
            return 0
        return t.get(v, 0)

    def complete(self, G, X, es, tuples):
        """no model gives es a value tuple outside `tuples`"""
        m = self.models(G, X)
        for t in tuples:
            c = self.en.ALL
            for e, v in zip(es, t):
                c &= self._vm(e, v)
            m &= ~c
            if not m:
                return True
        return m == 0

    def values(self, G, X, e):
        m = self.models(G, X)
        return sorted((v for v, vm in self.en.table(e).items() if vm & m), key=lambda v: (isinstance(v, bool), v))

    def optimum(self, G, X, e, signed, is_max):
        vs = self.values(G, X, e)
        if not vs:
            return None
        w = self.en.width(e)
        key = (lambda v: v - (1 << w) if v >> (w - 1) else v) if signed else (lambda v: v)
        return (max if is_max else min)(vs, key=key)

    def better_exists(self, G, X, e, m, signed, is_max):
        """a feasible value strictly better than the n-bit pattern m in the requested order"""
        o = self.optimum(G, X, e, signed, is_max)
        if o is None:
            return False
        w = self.en.width(e)
        key = (lambda v: v - (1 << w) if v >> (w - 1) else v) if signed else (lambda v: v)
        return key(o) > key(m) if is_max else key(o) < key(m)

    def valid(self, G, X, e, positive=True):
        """e (Boolean) is true (false if not positive) in every model of G u X"""
        m = self.models(G, X)
        t = self.en.table(e)
        return (m & t.get(not positive, 0)) == 0

    def width(self, e):
        return self.en.width(e)

    def witness_model(self, G, X=()):
        m = self.models(G, X)
        if not m:
            return None
        return self.en.assignment((m & -m).bit_length() - 1)


def _norm(v):
    if isinstance(v, bool):
        return v
    if isinstance(v, int):
        return v
    return v


class Z3Ref:
    name = "z3"

    def __init__(self, vars, timeout_ms=20000):
        import z3
        self.z3 = z3
        self.vars = vars
        self.timeout_ms = timeout_ms
        self.bv_only = all(isinstance(w, int) or w == "B" for w in vars.values())
        self._memo = {}
        self.checks = 0

    def term(self, item):
        z3 = self.z3
        if isinstance(item, str):
            return lang.zz(self.vars, item)
        return z3.Or(*[z3.And(*[self.term(i) for i in conj]) if conj else z3.BoolVal(True) for conj in item[1]])

    def _check(self, G, X, more=()):
        """fresh solver; True sat / False unsat / None unknown"""
        z3 = self.z3
        s = z3.SimpleSolver() if self.bv_only else z3.Solver()
        s.set("timeout", self.timeout_ms)
        for it in G:
            s.add(self.term(it))
        for x in X:
            s.add(self.term(x))
        for t in more:
            s.add(t)
        self.checks += 1
        r = s.check()
        if r == z3.sat:
            return True
        if r == z3.unsat:
            return False
        return None

    def _memoized(self, key, f):
        if key in self._memo:
            return self._memo[key]
        r = f()
        if len(self._memo) > 300000:
            self._memo.clear()
        self._memo[key] = r
        return r

    def _val(self, e, v):
        """z3 equation  e == v  for a python primitive v"""
        z3 = self.z3
        if not isinstance(e, str):
            return z3.BoolVal(_norm(e) == _norm(v))
        t = lang.zz(self.vars, e)
        if z3.is_bool(t):
            if not isinstance(v, bool):
                return z3.BoolVal(False)
            return t == z3.BoolVal(v)
        if z3.is_bv(t):
            if isinstance(v, bool) or not isinstance(v, int):
                return z3.BoolVal(False)
            if v < 0 or v >> t.size():
                return z3.BoolVal(False)    # not an n-bit pattern: no model gives that value
            return t == z3.BitVecVal(v, t.size())
        if z3.is_string(t):
            if not isinstance(v, str):
                return z3.BoolVal(False)
            return t == z3.StringVal(v)
        raise TypeError("unsupported sort")

    def sat(self, G, X=()):
        return self._memoized(("sat", G, X), lambda: self._check(G, X))

    def feasible(self, G, X, es, vals):
        key = ("feas", G, X, tuple(es), repr(tuple(vals)))
        return self._memoized(key, lambda: self._check(G, X, [self._val(e, v) for e, v in zip(es, vals)]))

    def complete(self, G, X, es, tuples):
        z3 = self.z3
        key = ("compl", G, X, tuple(es), repr(sorted(tuples, key=repr)))

        def f():
            more = [z3.Not(z3.And(*[self._val(e, v) for e, v in zip(es, t)])) for t in tuples]
            r = self._check(G, X, more)
            return None if r is None else (not r)
        return self._memoized(key, f)

    def better_exists(self, G, X, e, m, signed, is_max):
        z3 = self.z3
        key = ("better", G, X, e, m, signed, is_max)

        def f():
            t = lang.zz(self.vars, e)
            mv = z3.BitVecVal(m, t.size())
            if signed:
                c = (t > mv) if is_max else (t < mv)
            else:
                c = z3.UGT(t, mv) if is_max else z3.ULT(t, mv)
            return self._check(G, X, [c])
        return self._memoized(key, f)

    def optimum(self, G, X, e, signed, is_max):
        """by binary search with fresh solvers (only used for messages / when enumeration is unavailable)"""
        z3 = self.z3
        if not self.sat(G, X):
            return None
        t = lang.zz(self.vars, e)
        w = t.size()
        lo, hi = (-(1 << (w - 1)), (1 << (w - 1)) - 1) if signed else (0, (1 << w) - 1)
        ge = (lambda a, b: a >= b) if signed else z3.UGE
        le = (lambda a, b: a <= b) if signed else z3.ULE
        while lo < hi:
            mid = (lo + hi) // 2
            if is_max:
                r = self._check(G, X, [ge(t, z3.BitVecVal(mid + 1, w))])
                if r is None:
                    raise Undecided("z3 unknown in optimum")
                if r:
                    lo = mid + 1
                else:
                    hi = mid
            else:
                r = self._check(G, X, [le(t, z3.BitVecVal(mid, w))])
                if r is None:
                    raise Undecided("z3 unknown in optimum")
                if r:
                    hi = mid
                else:
                    lo = mid + 1
        return lo & ((1 << w) - 1)

    def valid(self, G, X, e, positive=True):
        z3 = self.z3
        key = ("valid", G, X, e, positive)

        def f():
            t = lang.zz(self.vars, e)
            r = self._check(G, X, [z3.Not(t) if positive else t])
            return None if r is None else (not r)
        return self._memoized(key, f)

    def width(self, e):
        t = lang.zz(self.vars, e)
        return t.size() if self.z3.is_bv(t) else None

    def values(self, G, X, e, limit=300):
        """all feasible values (up to limit) by blocking, fresh solver each round; for messages only"""
        out = []
        while len(out) < limit:
            z3 = self.z3
            s = z3.SimpleSolver() if self.bv_only else z3.Solver()
            s.set("timeout", self.timeout_ms)
            t = lang.zz(self.vars, e)
            for it in G:
                s.add(self.term(it))
            for x in X:
                s.add(self.term(x))
            for v in out:
                s.add(z3.Not(self._val(e, v)))
            r = s.check()
            if r != z3.sat:
                break
            mv = s.model().eval(t, model_completion=True)
            if z3.is_bv(t):
                out.append(mv.as_long())
            elif z3.is_bool(t):
                out.append(z3.is_true(mv))
            else:
                out.append(mv.as_string())
        return out

    def equivalent(self, G, other_terms):
        """Mod(G) == Mod(AND other_terms)  (other_terms: z3 terms, e.g. claripy's translation of
        result.constraints).  True / False / None."""
        z3 = self.z3
        g = z3.And(*[self.term(it) for it in G]) if G else z3.BoolVal(True)
        o = z3.And(*other_terms) if other_terms else z3.BoolVal(True)
        s = z3.SimpleSolver() if self.bv_only else z3.Solver()
        s.set("timeout", self.timeout_ms)
        s.add(g != o)
        self.checks += 1
        r = s.check()
        if r == z3.unsat:
            return True, None
        if r == z3.sat:
            return False, str(s.model())
        return None, None
