"""Alphabets (families), history generators and the task functions for C11-C18 (solver part).

Every task function returns the dict described in vf/rtc/__init__.py.  A history is a list of step
dicts (vf.rtc.driver).  All enumeration orders and all sub-sampling decisions are pure functions of
(seed, task id, running index), so a task is deterministic for a given seed.
"""
from __future__ import annotations

import hashlib
import itertools
import json
import random
import time

from . import driver
from .driver import OracleDisagreement


def Q(op, **kw):
    return {"op": op, **kw}


# ------------------------------------------------------------------------------------------------
# families: variables, constraint alphabet, query alphabet, probes

FAMILIES = {
    # one 8-bit variable; signed and unsigned ranges, a disjunction with far-apart values, unsat pairs
    "sx": {
        "vars": {"x": 8},
        "adds": ["SLT(x, 3)", "SGT(x, -3)", "x == 5", "ULT(x, 7)", "UGT(x, 7)", "Or(x == 6, x == 200)", "UGE(x, 6)"],
        "queries": [
            Q("eval", e="x", n=20), Q("eval", e="x", n=2), Q("eval", e="x", n=1, x=["x != 5"]),
            Q("min", e="x"), Q("min", e="x", signed=True), Q("max", e="x"), Q("max", e="x", signed=True),
            Q("min", e="x", x=["x != 6"]), Q("max", e="x", x=["ULT(x, 100)"]),
            Q("min", e="x", signed=True, x=["x != 254", "x != 0"]),
            Q("solution", e="x", v=5), Q("solution", e="x", v=200, x=["UGT(x, 9)"]),
            Q("satisfiable"), Q("satisfiable", x=["x == 6"]),
            Q("is_true", e="ULT(x, 7)"), Q("is_false", e="x == 5", x=["x != 5"]),
            Q("eval", e="BVV(5, 8)", n=1), Q("solution", e="BVV(5, 8)", v=5),
        ],
        "rqueries": [0, 3, 4, 5, 6, 7, 8, 10, 12],      # reduced query alphabet (indices) for exhaustive runs
        "radds": [0, 1, 2, 4, 5],
        "probes": [Q("satisfiable"), Q("eval", e="x", n=20), Q("min", e="x", signed=True), Q("max", e="x")],
        "conds": [["ULT(x, 100)", "UGE(x, 100)"], ["x == 6", "x == 200"], ["TRUE", "TRUE"]],
        "exprs": ["x", "x + 1", "x ^ 255", "ULT(x, 7)"],
    },
    # two 8-bit variables that get connected and disconnected
    "xy": {
        "vars": {"x": 8, "y": 8},
        "adds": ["x + y == 10", "x != y", "ULE(y, 2)", "UGT(x, 200)", "x == 5", "SLT(y, x)", "y == 200",
                 "Or(x == 1, y == 1)", "(x & 3) == 1", "ULT(x, 4)", "UGT(y, 2)", "FALSE"],
        "queries": [
            Q("eval", e="x + y", n=3), Q("eval", e="y", n=20), Q("eval", e="ULT(x, y)", n=2),
            Q("batch_eval", es=["x", "y"], n=3), Q("batch_eval", es=["x", "y"], n=3, x=["x != 5"]),
            Q("min", e="y"), Q("max", e="y", signed=True), Q("min", e="x", x=["UGT(y, 1)"]),
            Q("max", e="x + y"), Q("min", e="x", signed=True),
            Q("solution", e="y", v=5), Q("solution", e="x", v=8, x=["y == 2"]),
            Q("satisfiable"), Q("satisfiable", x=["x == y"]), Q("satisfiable", x=["x == 9", "y == 1"]),
            Q("is_true", e="ULE(y, 2)"), Q("is_false", e="x == y"),
            Q("eval", e="If(ULT(x, 4), y, x)", n=4),
        ],
        "rqueries": [0, 1, 3, 5, 6, 7, 10, 12, 13],
        "radds": [0, 1, 2, 3, 4],
        "probes": [Q("satisfiable"), Q("eval", e="x", n=20), Q("batch_eval", es=["x", "y"], n=4), Q("min", e="y", signed=True)],
        "conds": [["ULT(x, 100)", "UGE(x, 100)"], ["y == 1", "y == 2"], ["TRUE", "x == y"]],
        "exprs": ["x", "y", "x + y", "ULT(x, y)"],
    },
    # widths 8, 4, 4
    "mix": {
        "vars": {"x": 8, "y": 4, "z": 4},
        "adds": ["ZeroExt(4, y) == x", "y + z == 9", "y != z", "ULT(z, 3)", "UGT(z, 12)", "x == 5", "SLT(y, 2)",
                 "Concat(y, z) == x", "And(ULT(x, 20), UGT(z, 1))", "Or(y == 1, z == 2)", "SGT(z, y)", "UGT(x, 250)"],
        "queries": [
            Q("eval", e="z", n=20), Q("eval", e="Concat(y, z)", n=3), Q("eval", e="x", n=3, x=["UGT(x, 9)"]),
            Q("batch_eval", es=["y", "z"], n=5), Q("min", e="y", signed=True), Q("max", e="x"),
            Q("max", e="z", signed=True, x=["z != 7"]), Q("min", e="z"),
            Q("solution", e="z", v=4), Q("satisfiable"), Q("satisfiable", x=["ZeroExt(4, z) == x"]),
            Q("is_false", e="y == z"), Q("eval", e="y", n=20),
        ],
        "rqueries": [0, 1, 3, 4, 5, 6, 8, 9, 10],
        "radds": [0, 1, 2, 3, 4],
        "probes": [Q("satisfiable"), Q("eval", e="y", n=20), Q("batch_eval", es=["x", "z"], n=3), Q("max", e="z", signed=True)],
        "conds": [["ULT(y, 8)", "UGE(y, 8)"], ["z == 1", "z == 2"], ["TRUE", "x == 0"]],
        "exprs": ["x", "z", "Concat(y, z)", "y == z"],
    },
    # four 4-bit variables: groups connect and disconnect in every order (composite solver)
    "comp": {
        "vars": {"a": 4, "b": 4, "c": 4, "d": 4},
        "adds": ["a == 3", "ULT(a, b)", "b + c == 9", "c != d", "UGT(d, 12)", "ULT(d, 3)", "a + d == 7", "SLT(b, 2)",
                 "Or(a == 1, c == 2)", "And(ULT(a, 5), UGT(c, 2))", "ULE(b, 1)", "c == d", "FALSE", "UGT(c, 13)"],
        "queries": [
            Q("eval", e="a", n=20), Q("eval", e="a + b", n=20), Q("batch_eval", es=["a", "c"], n=3),
            Q("min", e="b"), Q("max", e="d", signed=True), Q("min", e="c", signed=True, x=["c != 8"]),
            Q("solution", e="c", v=5), Q("satisfiable"), Q("satisfiable", x=["a == d"]),
            Q("eval", e="d", n=3, x=["ULT(b, d)"]), Q("max", e="a + d"), Q("is_false", e="c == d"),
            Q("batch_eval", es=["b", "d"], n=20), Q("solution", e="a", v=1, x=["c == 2"]),
        ],
        "rqueries": [0, 1, 2, 3, 4, 6, 7, 8, 9],
        "radds": [0, 1, 2, 3, 4, 5, 6, 9],
        "probes": [Q("satisfiable"), Q("eval", e="a", n=20), Q("batch_eval", es=["b", "c"], n=4), Q("max", e="d", signed=True),
                   Q("eval", e="c", n=20)],
        "conds": [["d == 1", "d == 2"], ["ULT(a, 8)", "UGE(a, 8)"], ["TRUE", "b == c"], ["ULT(c, 4)", "c == 9"]],
        "exprs": ["a", "d", "a + b", "c == d"],
    },
    # three 4-bit variables for unsat cores: contradictions of size 2 (cheap path) and 3 (solver path)
    "core": {
        "vars": {"a": 4, "b": 4, "c": 4},
        "adds": ["ULT(a, b)", "ULT(b, c)", "ULT(c, a)", "a == 3", "a == 4", "UGT(b, 12)", "ULT(b, 2)", "b + c == 1",
                 "c != 0", "SLT(c, a)"],
        "queries": [Q("satisfiable"), Q("eval", e="a", n=2), Q("min", e="b")],
        "probes": [Q("satisfiable")],
    },
    # three 2-bit variables (64 assignments): the universe of the ghost-children runs (vf/rtc/ghost.py)
    "gh": {
        "vars": {"a": 2, "b": 2, "c": 2},
        "adds": ["a == 1", "UGT(b, 1)", "ULT(a, b)", "b + c == 3", "c != 0", "a + b == c", "ULE(c, 1)", "a != 1", "b == 2", "FALSE",
                 "Or(a == 2, c == 2)"],
        "queries": [
            Q("eval", e="a", n=4), Q("eval", e="a + b", n=4), Q("batch_eval", es=["a", "c"], n=16), Q("max", e="b"),
            Q("min", e="c", signed=True), Q("satisfiable"), Q("satisfiable", x=["a == b"]), Q("solution", e="b + c", v=1),
            Q("eval", e="c", n=4, x=["ULT(b, c)"]), Q("max", e="a + c", signed=True), Q("eval", e="b", n=4),
        ],
        "rqueries": [0, 1, 3, 5, 6, 10],
        "radds": [0, 1, 2, 3, 4, 8],
        "probes": [Q("satisfiable"), Q("eval", e="a", n=4), Q("batch_eval", es=["b", "c"], n=16), Q("eval", e="a + b", n=4)],
        "conds": [["c == 1", "c == 2"], ["ULT(a, 2)", "UGE(a, 2)"], ["TRUE", "b == c"]],
        "exprs": ["a", "c", "a + b", "b == c"],
    },
    # strings (z3 sequence theory; no enumeration oracle): lengths are pinned so that z3 decides quickly
    "str": {
        "vars": {"s": "S", "t": "S"},
        "adds": ["StrLen(s) == 2", "StrPrefixOf(StringV('a'), s)", "s == StringV('ab')", "StrContains(s, StringV('b'))",
                 "StrConcat(s, t) == StringV('abc')", "StrLen(t) == 1", "s != StringV('ab')", "t == StringV('c')",
                 "StrLen(s) == 3"],
        "queries": [
            Q("eval", e="s", n=2), Q("eval", e="t", n=2), Q("eval", e="StrLen(s)", n=2, x=["ULT(StrLen(s), 4)"]),
            Q("solution", e="s", v="ab"), Q("solution", e="t", v="zz", x=["StrLen(t) == 1"]),
            Q("satisfiable"), Q("satisfiable", x=["s == t"]),
            Q("batch_eval", es=["s", "t"], n=2), Q("eval", e="StrContains(s, t)", n=2),
        ],
        "rqueries": [0, 1, 3, 5, 6, 7],
        "radds": [0, 1, 2, 4, 5, 6],
        "probes": [Q("satisfiable"), Q("eval", e="s", n=2)],
    },
}

STRUCT = [Q("simplify"), Q("downsize"), {"op": "branch", "move": True}, {"op": "branch", "move": False}]
STRUCT3 = [Q("simplify"), Q("downsize"), {"op": "branch", "move": True}]


def fam_ops(fam, reduced):
    F = FAMILIES[fam]
    adds = [Q("add", c=[F["adds"][i]]) for i in (F["radds"] if reduced and "radds" in F else range(len(F["adds"])))]
    qs = [F["queries"][i] for i in (F["rqueries"] if reduced and "rqueries" in F else range(len(F["queries"])))]
    return adds, qs


# ------------------------------------------------------------------------------------------------
# deterministic sub-sampling and sharding

def _h(*parts):
    return int.from_bytes(hashlib.blake2b(repr(parts).encode(), digest_size=8).digest(), "big")


class Sampler:
    """keep(i): deterministic 1-in-denom choice, then round-robin sharding of the kept ones"""

    def __init__(self, seed, tag, denom=1, shard=0, nshards=1):
        self.k = _h(seed, tag) | 1
        self.denom = max(1, int(denom))
        self.shard = shard
        self.nshards = nshards
        self.kept = 0

    def keep(self, i):
        if self.denom > 1 and (((i + 1) * self.k) >> 17) % self.denom != 0:
            return False
        self.kept += 1
        return (self.kept - 1) % self.nshards == self.shard


def instantiate(templates):
    """templates with a cursor ('move' on object-creating ops) -> steps with explicit 'on'"""
    steps = []
    cur = 0
    n = 1
    for t in templates:
        st = {k: v for k, v in t.items() if k != "move"}
        if cur:
            st["on"] = cur
        steps.append(st)
        if t["op"] in ("branch", "split_combine", "pickle", "new"):
            if t.get("move", True):
                cur = n
            n += 1
    return steps


def with_probes(steps, probes, nsolvers=None):
    if nsolvers is None:
        nsolvers = 1 + sum(1 for s in steps if s["op"] in ("branch", "split_combine", "pickle", "new", "combine", "merge"))
    out = list(steps)
    for on in range(nsolvers):
        for p in probes:
            st = dict(p)
            if on:
                st["on"] = on
            out.append(st)
    return out


# ------------------------------------------------------------------------------------------------
# generators.  Each yields (kind, steps)

def gen_linear(fam, maxlen, tail=True, reduced=True, struct=STRUCT, extra_templates=()):
    """all op sequences of length <= maxlen whose first op is an add, plus (tail) all sequences of length
    maxlen+1 that end in a query; single-query histories on the empty solver first."""
    adds, qs = fam_ops(fam, reduced)
    T = adds + qs + list(struct) + list(extra_templates)
    for q in qs:
        yield "L1q", [q]
    for L in range(1, maxlen + 1):
        for first in adds:
            for rest in itertools.product(T, repeat=L - 1):
                yield f"L{L}", instantiate([first, *rest])
    if tail:
        L = maxlen + 1
        for first in adds:
            for mid in itertools.product(T, repeat=L - 2):
                for q in qs:
                    yield f"L{L}q", instantiate([first, *mid, q])


def gen_random(fam, rng, count, maxlen, multi=False, extra_ops=()):
    """seeded random histories over the FULL alphabet; multi: several solver objects, ops pick a target.
    Objects that stem from split() (pieces / their combination) may be of another class than the solver under
    test (a composite's children), so combine / merge only pair objects of the original class."""
    F = FAMILIES[fam]
    adds, qs = fam_ops(fam, False)
    for _ in range(count):
        L = rng.randint(3, maxlen)
        steps = []
        G = [False]           # one entry per solver object: True if it stems from a split
        for _j in range(L):
            on = rng.randrange(len(G)) if multi else (len(G) - 1 if rng.random() < 0.8 else rng.randrange(len(G)))
            r = rng.random()
            if r < 0.34:
                st = dict(rng.choice(adds))
                if rng.random() < 0.15:
                    st = Q("add", c=rng.sample(F["adds"], 2))
            elif r < 0.84:
                st = dict(rng.choice(qs))
            elif r < 0.90:
                st = Q("simplify")
            elif r < 0.93:
                st = Q("downsize")
            elif r < 0.98 or not extra_ops:
                st = Q("branch")
            else:
                st = dict(rng.choice(list(extra_ops)))
            if st["op"] in ("combine", "merge"):
                partners = [j for j in range(len(G)) if j != on and not G[j]]
                if G[on] or not partners:
                    continue
                st["others"] = [rng.choice(partners)]
                if st["op"] == "merge":
                    st["conds"] = rng.choice(F["conds"])
                    st["ancestor"] = None
            if on:
                st["on"] = on
            steps.append(st)
            if st["op"] in ("branch", "pickle"):
                G.append(G[on])
            elif st["op"] == "split_combine":
                G.append(True)
            elif st["op"] in ("new", "combine", "merge"):
                G.append(False)
        yield "rand", steps


def gen_diamond(fam, reduced=True, queries_between=True):
    """root prefix; optional ancestor copy; branch; one add (and optionally one query) on each side;
    join by merge / merge-with-ancestor / combine; probes on the result and on both inputs."""
    F = FAMILIES[fam]
    adds, qs = fam_ops(fam, reduced)
    warm = [None] + (qs[:3] if queries_between else [])
    pres = [[]] + [[a] for a in adds[:4]]
    for pre in pres:
        for la in adds:
            for ra in adds:
                for wq in warm:
                    for conds in F["conds"]:
                        for join in ("merge", "merge_anc", "combine", "merge_new", "combine_new"):
                            steps = [dict(a) for a in pre]
                            if join.endswith("_new"):
                                # the right-hand solver is created independently of the left one
                                steps.append(Q("new"))                       # 1
                                right = 1
                                anc = None
                                steps += [dict(a, on=1) for a in pre]
                            elif join == "merge_anc":
                                steps.append(Q("branch"))                    # 1 = ancestor copy
                                steps.append(Q("branch"))                    # 2 = right side
                                right, anc = 2, 1
                            else:
                                steps.append(Q("branch"))                    # 1 = right side
                                right, anc = 1, None
                            steps.append(dict(la))
                            if wq:
                                steps.append(dict(wq))
                            steps.append(dict(ra, on=right))
                            if wq:
                                steps.append(dict(wq, on=right))
                            n = right + 1
                            if join.startswith("merge"):
                                steps.append(Q("merge", others=[right], conds=list(conds), ancestor=anc))
                            else:
                                steps.append(Q("combine", others=[right]))
                            res = n
                            for p in F["probes"]:
                                steps.append(dict(p, on=res))
                            for p in F["probes"][:2]:
                                steps.append(dict(p))
                                steps.append(dict(p, on=right))
                            yield join, steps


def gen_triple(fam, rng, count):
    """three-way merges / combines of solvers grown by random short histories from a common root"""
    F = FAMILIES[fam]
    adds, qs = fam_ops(fam, False)
    for _ in range(count):
        steps = [dict(rng.choice(adds)) for _ in range(rng.randint(0, 2))]
        shared = rng.random() < 0.6
        steps += [Q("branch"), Q("branch")] if shared else [Q("new"), Q("new")]
        for on in (0, 1, 2):
            for _k in range(rng.randint(0, 2)):
                st = dict(rng.choice(adds if rng.random() < 0.7 else qs))
                if on:
                    st["on"] = on
                steps.append(st)
        kind = rng.choice(["merge", "combine"])
        if kind == "merge":
            c = rng.choice(F["conds"])
            steps.append(Q("merge", others=[1, 2], conds=[c[0], c[1], rng.choice(["TRUE", c[0]])], ancestor=None))
        else:
            steps.append(Q("combine", others=[1, 2]))
        res = 3
        for p in F["probes"]:
            steps.append(dict(p, on=res))
        yield kind + "3", steps


def gen_cow(fam, maxops=3, npre=2):
    """copy-on-write patterns: a prefix of adds, an optional query that spans children (fills the merged-solver cache), a
    branch, then EVERY sequence of up to `maxops` adds/queries distributed over the two sides, then probes on both"""
    F = FAMILIES[fam]
    adds, qs = fam_ops(fam, True)
    adds, qs = adds[:5], qs[:4]
    pres = [[a] for a in adds[:3]] + [[a, b] for a in adds[:4] for b in adds[:4] if a is not b]
    warm = [None, qs[1], qs[0]]
    side_ops = [dict(o, on=on) if on else dict(o) for on in (0, 1) for o in (adds[:4] + qs[:3])]
    for pre in pres[:npre * 6]:
        for wq in warm:
            for L in range(1, maxops + 1):
                for seq in itertools.product(side_ops, repeat=L):
                    steps = [dict(a) for a in pre]
                    if wq:
                        steps.append(dict(wq))
                    steps.append(Q("branch"))
                    steps += [dict(o) for o in seq]
                    for p in F["probes"][:3]:
                        steps.append(dict(p))
                        steps.append(dict(p, on=1))
                    yield f"cow{L}", steps


def gen_combine3(fam):
    """three independently created solvers, each with one or two adds and an optional query (so that it holds a cached
    model), combined / merged in every role assignment; probes on the result"""
    F = FAMILIES[fam]
    adds, qs = fam_ops(fam, False)
    adds = adds[:9]
    warm = [None, Q("satisfiable"), qs[0]]
    for a0 in adds:
        for a1 in adds:
            for a2 in adds:
                for w in warm:
                    for recv in (0, 1, 2):
                        steps = [Q("new"), Q("new"), dict(a0), dict(a1, on=1), dict(a2, on=2)]
                        if w:
                            steps += [dict(w), dict(w, on=1), dict(w, on=2)]
                        others = [i for i in (0, 1, 2) if i != recv]
                        steps.append(Q("combine", others=others, **({"on": recv} if recv else {})))
                        for p in F["probes"]:
                            steps.append(dict(p, on=3))
                        yield "combine3", steps


def gen_merge3(fam):
    """three solvers branched from one root (a prefix of 0-2 adds), zero or one add on each side, merged three-way WITHOUT a
    common ancestor and with trivial conditions: the result must have exactly the union of the three model sets"""
    F = FAMILIES[fam]
    adds, qs = fam_ops(fam, True)
    adds = adds[:6]
    pres = [[]] + [[a] for a in adds[:4]] + [[a, b] for a in adds[:3] for b in adds[:3] if a is not b]
    opt = [None] + adds
    for pre in pres:
        for x0 in opt:
            for x1 in opt:
                for x2 in opt:
                    if x0 is None and x1 is None and x2 is None:
                        continue
                    steps = [dict(a) for a in pre] + [Q("branch"), Q("branch")]
                    for on, x in ((0, x0), (1, x1), (2, x2)):
                        if x is not None:
                            steps.append(dict(x, on=on) if on else dict(x))
                    steps.append(Q("merge", others=[1, 2], conds=["TRUE", "TRUE", "TRUE"], ancestor=None))
                    for p in F["probes"][:2]:
                        steps.append(dict(p, on=3))
                    yield "merge3", steps


def gen_split(fam, reduced=False, maxadds=3):
    """solvers grown by adds (in every order) and an optional warm-up query / simplify, then split();
    every piece is probed afterwards (the driver gives each piece the ghost items over its variables)."""
    F = FAMILIES[fam]
    adds, qs = fam_ops(fam, reduced)
    for k in range(0, maxadds + 1):
        for seq in itertools.permutations(adds, k):
            for mid in (None, qs[0], Q("simplify")):
                steps = [dict(a) for a in seq]
                if mid:
                    steps.append(dict(mid))
                steps.append(Q("split"))
                # pieces are appended as solvers 1..m; probe up to 3 of them (steps on missing objects are skipped)
                for on in (1, 2, 3):
                    steps.append(dict(F["probes"][0], on=on))
                    for v in sorted(F["vars"]):
                        steps.append(Q("eval", e=v, n=20, on=on))
                yield f"split{k}", steps
            if k >= 2:
                steps = [dict(a) for a in seq] + [Q("split_combine")]
                for p in F["probes"]:
                    steps.append(dict(p, on=1))
                yield f"splitcombine{k}", steps


def gen_tree(fam, reduced=True):
    """C14: root prefix, a branch, interleaved ops on both sides, optionally a second (nested or sibling)
    branch and more interleaved ops; finally every object is probed."""
    F = FAMILIES[fam]
    adds, qs = fam_ops(fam, reduced)
    T = adds + qs[:5] + [Q("simplify"), Q("downsize")]
    pre_q = [None, qs[0], qs[3 % len(qs)]]
    for a in adds:
        for pq in pre_q:
            pre = [dict(a)] + ([dict(pq)] if pq else [])
            # one branch, two interleaved ops
            for (o1, t1), (o2, t2) in itertools.product(itertools.product(T, (0, 1)), repeat=2):
                steps = pre + [Q("branch"), dict(o1, on=t1), dict(o2, on=t2)]
                yield "b1", with_probes([_norm_on(s) for s in steps], F["probes"], 2)
            # two branches (nested: from 1, sibling: from 0), one op before, two ops after
            for (o1, t1) in itertools.product(T, (0, 1)):
                for src in (0, 1):
                    for (o2, t2), (o3, t3) in itertools.product(itertools.product(T, (0, 1, 2)), repeat=2):
                        steps = pre + [Q("branch"), dict(o1, on=t1), Q("branch", on=src), dict(o2, on=t2), dict(o3, on=t3)]
                        yield "b2", with_probes([_norm_on(s) for s in steps], F["probes"], 3)


def _norm_on(st):
    if st.get("on") == 0:
        st = {k: v for k, v in st.items() if k != "on"}
    return st


def gen_cores(fam, sizes=(2, 3)):
    """C16: every ordered selection of `size` constraints, in four shapes"""
    F = FAMILIES[fam]
    for k in sizes:
        for seq in itertools.permutations(F["adds"], k):
            adds = [Q("add", c=[c]) for c in seq]
            yield f"adds{k}", [*adds, Q("unsat_core")]
            inter = []
            for a in adds:
                inter += [a, Q("satisfiable")]
            yield f"checked{k}", [*inter, Q("unsat_core")]
            yield f"list{k}", [Q("add", c=list(seq), aslist=True), Q("unsat_core")]
            yield f"branch{k}", [*adds[:-1], Q("branch"), dict(adds[-1], on=1), Q("unsat_core", on=1), Q("unsat_core")]
            yield f"evalfirst{k}", [adds[0], Q("eval", e=sorted(F["vars"])[0], n=2), *adds[1:], Q("unsat_core"), Q("unsat_core")]


def gen_pickle(fam, reduced=True):
    """C18: prefix of <= 3 ops, pickle round trip, then ops on the unpickled object and on the original"""
    F = FAMILIES[fam]
    adds, qs = fam_ops(fam, reduced)
    T = adds + qs[:6] + [Q("simplify")]
    for L in (0, 1, 2, 3):
        firsts = adds if L else [None]
        for first in firsts:
            for rest in itertools.product(T, repeat=max(L - 1, 0)):
                pre = ([dict(first)] if first else []) + [dict(r) for r in rest]
                for post in T:
                    steps = pre + [Q("pickle"), dict(post, on=1)]
                    yield f"pk{L}", with_probes(steps, F["probes"], 2)


def fault_bases(fam, reduced=True):
    """C17: prefix (adds, optional warm-up query, optional branch) + the operation that will be faulted"""
    F = FAMILIES[fam]
    adds, qs = fam_ops(fam, reduced)
    prefixes = [[a] for a in adds] + [[a, b] for a in adds[:4] for b in adds if a is not b]
    for pre in prefixes:
        for warm in (None, qs[0], qs[1]):
            for br in (None, "stay", "move", "late"):
                for target in qs:
                    t = [dict(p) for p in pre]
                    if warm:
                        t.append(dict(warm))
                    if br in ("stay", "move"):
                        t.append({"op": "branch", "move": br == "move"})
                    steps = instantiate(t + [dict(target)])
                    n = 2 if br in ("stay", "move") else 1
                    tail = []
                    if br == "late":
                        tail = [Q("branch")]
                    yield br or "plain", steps, tail, n


# ------------------------------------------------------------------------------------------------
# the generic task body

class Acc:
    def __init__(self, known_labels):
        self.known_labels = list(known_labels or [])
        self.evaluations = 0
        self.histories = 0
        self.steps = 0
        self.distinct = set()
        self.failures = []
        self.fail_labels = {}
        self.n_failures = 0
        self.known_hits = {}
        self.known_witness = {}
        self.undecided = []
        self.n_undecided = 0
        self.noanswer = 0
        self.samples = []
        self.kinds = {}
        self.t0 = time.time()

    def run(self, cfg, vars, kind, steps):
        r = driver.run_history(cfg, vars, steps, xcheck=not cfg.get("ghost"))
        self.histories += 1
        self.kinds[kind] = self.kinds.get(kind, 0) + 1
        self.evaluations += r["checks"]
        self.steps += len(r["transcript"])
        self.noanswer += r["noanswer"]
        if r["nontrivial"]:
            self.distinct.add(_h(cfg.get("cls"), cfg.get("kwargs"), cfg.get("reuse"), cfg.get("q"), steps))
        if r["undecided"]:
            self.n_undecided += 1
            if len(self.undecided) < 5:
                self.undecided.append({"steps": steps, "why": r["undecided"]})
        if r["failures"]:
            driver.relabel(cfg, vars, steps, r["failures"])
        for f in r["failures"]:
            lab = f["label"]
            w = driver.witness(cfg, vars, steps, f)
            if driver.known(lab, self.known_labels):
                self.known_hits[lab] = self.known_hits.get(lab, 0) + 1
                old = self.known_witness.get(lab)
                if old is None or len(w["steps"]) < len(old["steps"]):
                    self.known_witness[lab] = w
                continue
            self.n_failures += 1
            self.fail_labels[lab] = self.fail_labels.get(lab, 0) + 1
            entry = {"label": lab, "kind": "bounded", "witness": w,
                     "detail": f"{driver.fmt_step(steps[f['step']])}: reference expects {json.dumps(f['expected'], default=str)[:160]}, "
                               f"got {json.dumps(f['got'], default=str)[:160]} {f.get('detail', '')}".strip()}
            same = [k for k, e in enumerate(self.failures) if e["label"] == lab]
            if same:
                if len(w["steps"]) < len(self.failures[same[0]]["witness"]["steps"]):
                    self.failures[same[0]] = entry
            elif len(self.failures) < 5:
                self.failures.append(entry)
        if len(self.samples) < 2 and r["nontrivial"] and len(steps) >= 3 and self.histories % 7 == 3:
            self.samples.append({"cfg": cfg, "steps": steps,
                                 "answers": [[driver.fmt_step(st), kind_, driver._jsonable(val)]
                                             for (_i, st, kind_, val) in r["transcript"]][:12]})
        return r

    def result(self, rule, **more):
        status = "ok"
        reason = ""
        if self.n_failures:
            status = "violated"
        elif self.n_undecided:
            # z3's sequence solver is incomplete: a few undecidable reference questions in the string family are
            # skipped (and reported); anything else, or more than 5 % of the histories, is an undecided task
            reason = (f"{self.n_undecided} of {self.histories} histories skipped: the reference could not decide a question, "
                      f"e.g. {self.undecided[0]['why']} in {json.dumps(self.undecided[0]['steps'])[:300]}")
            if not (more.get("family") == "str" and self.n_undecided * 20 <= self.histories):
                status = "undecided"
        d = {"status": status, "evaluations": self.evaluations, "distinct_nontrivial": len(self.distinct),
             "failures": self.failures, "n_failures": self.n_failures, "failure_labels": self.fail_labels,
             "known_hits": self.known_hits, "known_witnesses": self.known_witness,
             "samples": self.samples, "reason": reason, "rule": rule, "histories": self.histories,
             "undecided_examples": self.undecided[:3], "undecided_histories": self.n_undecided,
             "history_kinds": self.kinds, "steps": self.steps, "noanswer": self.noanswer,
             "wall_s": round(time.time() - self.t0, 2)}
        d.update(more)
        return d


def _guard(f):
    """an oracle disagreement or a crash of the harness is never a violation"""
    def g(**kw):
        try:
            return f(**kw)
        except OracleDisagreement as e:
            return {"status": "undecided", "evaluations": 0, "distinct_nontrivial": 0, "failures": [], "n_failures": 0,
                    "samples": [], "reason": "ORACLE DISAGREEMENT (harness defect, not a finding): " + str(e)[:1500]}
    g.__name__ = f.__name__
    return g


def _cfgs_tag(cfg):
    return json.dumps(cfg, sort_keys=True)


# ------------------------------------------------------------------------------------------------
# task functions

@_guard
def linear(fam, cfg, maxlen=3, tail_denom=1, body_denom=1, shard=0, nshards=1, seed=0, rand_count=0, rand_maxlen=40,
           known_labels=(), reduced=True, struct=None, extra_templates=(), multi=False, extra_ops=()):
    """C11 / C12 / C13: single-line histories (exhaustive up to maxlen, sampled tail of length maxlen+1
    ending in a query), then seeded random histories over the full alphabet."""
    vars = FAMILIES[fam]["vars"]
    acc = Acc(known_labels)
    tag = (fam, _cfgs_tag(cfg))
    sb = Sampler(seed, ("body", tag), body_denom, shard, nshards)
    stl = Sampler(seed, ("tail", tag), tail_denom, shard, nshards)
    ib = it = 0
    total = {"body": 0, "tail": 0}
    for kind, steps in gen_linear(fam, maxlen, tail=tail_denom > 0, reduced=reduced,
                                  struct=STRUCT if struct is None else struct, extra_templates=extra_templates):
        if kind.endswith("q") and kind != "L1q":
            total["tail"] += 1
            it += 1
            if not stl.keep(it):
                continue
        else:
            total["body"] += 1
            ib += 1
            if not sb.keep(ib):
                continue
        acc.run(cfg, vars, kind, steps)
    if rand_count:
        rng = random.Random(f"{seed}/{tag}/{shard}")
        for kind, steps in gen_random(fam, rng, rand_count, rand_maxlen, multi=multi, extra_ops=extra_ops):
            acc.run(cfg, vars, kind, steps)
    rule = (f"family {fam}: all op sequences of length <= {maxlen} over the reduced alphabet whose first op is an add "
            f"(1 in {body_denom} of {total['body']}), all sequences of length {maxlen + 1} ending in a query "
            f"(1 in {tail_denom} of {total['tail']}, chosen by a hash of seed and index), shard {shard}/{nshards}; "
            f"{rand_count} seeded random histories of length <= {rand_maxlen} over the full alphabet; "
            "distinct = distinct (configuration, step list) with >= 1 judged answer after >= 1 add")
    return acc.result(rule, cfg=cfg, family=fam)


@_guard
def generated(fam, cfg, gen, denom=1, shard=0, nshards=1, seed=0, known_labels=(), gen_kwargs=None, rand=None):
    """histories from a named generator (gen_diamond / gen_tree / gen_split / gen_cores / gen_pickle / gen_triple)"""
    vars = FAMILIES[fam]["vars"]
    acc = Acc(known_labels)
    tag = (fam, gen, _cfgs_tag(cfg))
    sm = Sampler(seed, tag, denom, shard, nshards)
    g = globals()[gen]
    kw = dict(gen_kwargs or {})
    if gen in ("gen_triple",):
        kw["rng"] = random.Random(f"{seed}/{tag}/{shard}")
    total = 0
    for i, (kind, steps) in enumerate(g(fam, **kw)):
        total += 1
        if not sm.keep(i):
            continue
        acc.run(cfg, vars, kind, steps)
    if rand:
        rng = random.Random(f"{seed}/{tag}/{shard}/r")
        for kind, steps in gen_random(fam, rng, rand["count"], rand.get("maxlen", 40), multi=True,
                                      extra_ops=rand.get("extra_ops", ())):
            acc.run(cfg, vars, kind, steps)
    rule = (f"family {fam}, generator {gen}{kw if gen != 'gen_triple' else ''}: 1 in {denom} of {total} generated histories "
            f"(hash of seed and index), shard {shard}/{nshards}"
            + (f"; plus {rand['count']} seeded random multi-object histories" if rand else "")
            + "; distinct = distinct (configuration, step list) with >= 1 judged answer after >= 1 add")
    return acc.result(rule, cfg=cfg, family=fam)


@_guard
def faults(fam, cfg, denom=1, shard=0, nshards=1, seed=0, known_labels=(), kmax=12):
    """C17: for every base history and every k = 1, 2, ... up to the number of solver checks the faulted
    operation performs: raise ClaripySolverInterruptError at the k-th check, then probe every object."""
    vars = FAMILIES[fam]["vars"]
    F = FAMILIES[fam]
    acc = Acc(known_labels)
    tag = (fam, "faults", _cfgs_tag(cfg))
    sm = Sampler(seed, tag, denom, shard, nshards)
    total = 0
    positions = 0
    for i, (kind, steps, tail, n) in enumerate(fault_bases(fam)):
        total += 1
        if not sm.keep(i):
            continue
        target = steps[-1]
        for k in range(1, kmax + 1):
            h = steps[:-1] + [Q("fault", k=k, step=target)] + tail
            h = with_probes(h, F["probes"], n + len(tail))
            r = acc.run(cfg, vars, kind, h)
            if r["fault_fired"]:
                positions += 1
            if not r["fault_fired"]:
                break
    rule = (f"family {fam}: 1 in {denom} of {total} base histories (prefix of 1-2 adds, optional warm-up query, optional "
            f"branch before/after) x every query of the reduced alphabet as the faulted operation x every check position k "
            f"until the operation performs fewer than k checks (kmax {kmax}); all objects probed afterwards; shard {shard}/{nshards}")
    return acc.result(rule, cfg=cfg, family=fam, fault_positions=positions)
