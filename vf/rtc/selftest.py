"""python -m vf.rtc.selftest

Shows that the oracle is not vacuous: three deliberate bugs are monkeypatched into claripy at run time
(nothing on disk changes) and the corresponding task function must report "violated" with a witness
that the native replay reproduces while the bug is in place and no longer reproduces once it is removed.

  1. ConstrainedFrontend._copy shares the constraints list between a solver and its branch   (C14)
  2. FullFrontend.eval drops one of the solutions it found                                    (C11)
  3. ConstrainedFrontend.combine forgets the constraints of the other solvers                 (C15)
"""
from __future__ import annotations

import contextlib
import json
import sys

from . import driver, histories, proposed_labels


@contextlib.contextmanager
def patched(obj, name, new):
    old = getattr(obj, name)
    setattr(obj, name, new)
    try:
        yield
    finally:
        setattr(obj, name, old)


def _bug_shared_constraints():
    from claripy.frontend.constrained_frontend import ConstrainedFrontend
    orig = ConstrainedFrontend._copy

    def _copy(self, c):
        orig(self, c)
        c.constraints = self.constraints          # the deliberate bug: alias instead of copy
    return ConstrainedFrontend, "_copy", _copy


def _bug_eval_drops_one():
    from claripy.frontend.full_frontend import FullFrontend
    orig = FullFrontend.eval

    def eval(self, e, n, extra_constraints=(), exact=None):  # noqa: A001
        r = orig(self, e, n, extra_constraints=extra_constraints, exact=exact)
        return r[:-1] if len(r) > 2 else r       # the deliberate bug: one solution goes missing
    return FullFrontend, "eval", eval


def _bug_combine_forgets():
    from claripy.frontend.constrained_frontend import ConstrainedFrontend

    def combine(self, others):
        combined = self.blank_copy()
        combined.add(self.constraints)
        return combined
    return ConstrainedFrontend, "combine", combine


CASES = [
    ("branch shares the constraints list", _bug_shared_constraints,
     lambda kl: histories.generated(fam="xy", cfg={"cls": "SolverCacheless"}, gen="gen_tree", denom=20000, seed=1, known_labels=kl)),
    ("eval loses one solution", _bug_eval_drops_one,
     lambda kl: histories.linear(fam="sx", cfg={"cls": "SolverCacheless"}, maxlen=2, tail_denom=0, seed=1, known_labels=kl,
                                 struct=[{"op": "simplify"}])),
    ("combine forgets the other solvers", _bug_combine_forgets,
     lambda kl: histories.generated(fam="comp", cfg={"cls": "SolverCacheless"}, gen="gen_diamond", denom=400, seed=1, known_labels=kl)),
]


def main():
    kl = proposed_labels()
    ok = True
    for name, mk, run in CASES:
        base = run(kl)
        obj, attr, new = mk()
        with patched(obj, attr, new):
            r = run(kl)
            rep = [driver.replay({}, f) for f in r["failures"][:1]]
        rep_after = [driver.replay({}, f) for f in r["failures"][:1]]
        good = (base["status"] == "ok" and r["status"] == "violated" and rep and rep[0]["reproduced"]
                and not rep_after[0]["reproduced"])
        ok = ok and good
        print(f"[{'PASS' if good else 'FAIL'}] injected bug: {name}")
        print(f"   unpatched claripy: status={base['status']} ({base['histories']} histories, {base['evaluations']} judged answers, "
              f"known hits {sum(base['known_hits'].values())})")
        print(f"   patched claripy:   status={r['status']} n_failures={r['n_failures']} labels={json.dumps(r.get('failure_labels'))[:200]}")
        if r["failures"]:
            f = r["failures"][0]
            print(f"   witness [{f['label']}]: {json.dumps(f['witness']['steps'])[:400]}")
            print(f"   {f['detail'][:300]}")
            print(f"   native replay with the bug in place: reproduced={rep[0]['reproduced']}; after removing it: reproduced={rep_after[0]['reproduced']}")
    print("selftest", "passed" if ok else "FAILED")
    return 0 if ok else 1


if __name__ == "__main__":
    sys.exit(main())
