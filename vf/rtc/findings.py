"""Native replay of an entry of proposed_findings.json / known_findings.json:
    replay(entry) -> {"reproduced": bool, "text": str}
The entry carries "witness" (as produced by the task functions) and "witness_label"."""
from __future__ import annotations


def replay(entry):
    w = entry.get("witness")
    if not w:
        return {"reproduced": False, "text": "entry carries no witness"}
    failure = {"label": entry.get("witness_label") or (entry.get("labels") or [""])[0], "witness": w}
    if "case" in w:
        from . import values
        return values.replay({}, failure)
    if "ast" in w:
        from . import pickles
        return pickles.replay_asts({"kwargs": {"seed": entry.get("seed", 0), "nseeds": 1}}, failure)
    if w.get("cross_process"):
        from . import pickles
        r = pickles.replay_xproc({}, failure)
        if r.get("reproduced"):
            return r
    from . import driver
    return driver.replay({}, failure)
