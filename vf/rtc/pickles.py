"""C18 - pickle round trips of expressions (in-process identity, cross-process structure + meaning) and
of solver objects across processes (a child interpreter with a random PYTHONHASHSEED unpickles the
solver and answers the rest of the history; answers are judged by the reference oracles in the child).

In-process solver round trips are ordinary histories with a {"op":"pickle"} step (histories.gen_pickle).
"""
from __future__ import annotations

import base64
import gc
import json
import math
import os
import pickle
import random
import subprocess
import sys
import tempfile
import time

import claripy

from . import driver, histories, lang

ROOT = os.path.dirname(os.path.dirname(os.path.dirname(os.path.abspath(__file__))))


class TagAnnotation(claripy.Annotation):
    """a user annotation that survives simplification (not eliminatable, relocatable)"""

    def __init__(self, tag):
        self.tag = tag

    @property
    def eliminatable(self):
        return False

    @property
    def relocatable(self):
        return True

    def __hash__(self):
        return hash(("TagAnnotation", self.tag))

    def __eq__(self, other):
        return isinstance(other, TagAnnotation) and other.tag == self.tag

    def __repr__(self):
        return f"<Tag {self.tag!r}>"


class SoftAnnotation(claripy.Annotation):
    """eliminatable annotation"""

    def __init__(self, n):
        self.n = n

    def __hash__(self):
        return hash(("SoftAnnotation", self.n))

    def __eq__(self, other):
        return isinstance(other, SoftAnnotation) and other.n == self.n

    def __repr__(self):
        return f"<Soft {self.n}>"


def build_asts():
    """(name, AST) of every sort, plain and annotated; construction is deterministic"""
    c = claripy
    x = c.BVS("px", 8, explicit_name=True)
    y = c.BVS("py", 8, explicit_name=True)
    w = c.BVS("pw", 65, explicit_name=True)
    b = c.BoolS("pb", explicit_name=True)
    f = c.FPS("pf", c.FSORT_DOUBLE, explicit_name=True)
    g = c.FPS("pg", c.FSORT_FLOAT, explicit_name=True)
    s = c.StringS("ps", explicit_name=True)
    t = c.StringS("pt", explicit_name=True)
    rm = c.fp.RM.RM_TowardsZero
    out = [
        ("bvs", x), ("bvv", c.BVV(0xAB, 8)), ("bvv65", c.BVV((1 << 64) + 5, 65)), ("add", x + y), ("add_const", x + 1),
        ("mul_sub", x * y - 3), ("bitops", (x & 0xF0) | (~y ^ 0x0F)), ("shift", c.LShR(x, 2) + (y << 1)),
        ("concat", c.Concat(x, y)), ("extract", c.Extract(40, 3, w)), ("zext", c.ZeroExt(8, x)), ("sext", c.SignExt(3, y)),
        ("ite", c.If(c.ULT(x, y), x, y + 1)), ("ite_bool", c.If(b, x == 1, y == 2)), ("udiv", x // (y | 1)),
        ("rot", c.RotateLeft(x, 3)), ("reverse", c.Reverse(c.Concat(x, y))),
        ("ult", c.ULT(x, y)), ("sle", c.SLE(x, 5)), ("and_or_not", c.And(c.Or(b, x == y), c.Not(c.UGT(y, 3)))),
        ("bools", b), ("boolv", c.true()), ("ne", x != y),
        ("fps", f), ("fpv", c.FPV(1.5, c.FSORT_DOUBLE)), ("fpv_f", c.FPV(-0.0, c.FSORT_FLOAT)), ("fpv_inf", c.FPV(math.inf, c.FSORT_DOUBLE)),
        ("fpv_nan", c.FPV(math.nan, c.FSORT_DOUBLE)), ("fpadd", c.fpAdd(rm, f, c.FPV(2.0, c.FSORT_DOUBLE))),
        ("fpmul_default", f * f), ("fplt", c.fpLT(g, c.FPV(1.0, c.FSORT_FLOAT))), ("fpisnan", c.fpIsNaN(f)),
        ("fptoieee", c.fpToIEEEBV(g)), ("fptofp", c.fpToFP(rm, g, c.FSORT_DOUBLE)), ("fptosbv", c.fpToSBV(rm, f, 32)),
        ("fpneg_abs", c.fpAbs(c.fpNeg(f))), ("fpeq", c.fpEQ(f, f)),
        ("strs", s), ("strv", c.StringV("a\x00é\U0001F600\\u{48}")), ("strconcat", c.StrConcat(s, c.StringV("-"), t)),
        ("strlen", c.StrLen(s)), ("strcontains", c.StrContains(s, t)), ("strsubstr", c.StrSubstr(c.BVV(1, 64), c.BVV(2, 64), s)),
        ("strindexof", c.StrIndexOf(s, t, c.BVV(0, 64))), ("strprefix", c.StrPrefixOf(c.StringV("ab"), s)),
        ("streq", s == c.StringV("q")), ("strtoint", c.StrToInt(s)),
        # annotated
        ("ann_leaf", x.annotate(TagAnnotation("k1"))), ("ann_bvv", c.BVV(77, 8).annotate(TagAnnotation(7))),
        ("ann_inner", (x.annotate(TagAnnotation("in")) + y) * 2), ("ann_two", (x + y).annotate(TagAnnotation("a"), SoftAnnotation(2))),
        ("ann_bool", c.ULT(x, y).annotate(TagAnnotation("cond"))), ("ann_fp", f.annotate(TagAnnotation("fp"))),
        ("ann_str", s.annotate(SoftAnnotation(9))), ("ann_noSimp", (x + 0).annotate(c.annotation.SimplificationAvoidanceAnnotation())),
        ("ann_nested", c.If(b.annotate(TagAnnotation("g")), x.annotate(SoftAnnotation(1)), y).annotate(TagAnnotation("top"))),
        ("uninit", x.annotate(c.annotation.UninitializedAnnotation())),
        # VSA flavoured
        ("si", c.SI(name="psi", bits=8, stride=2, lower_bound=0, upper_bound=10, explicit_name=True)),
        ("si_expr", c.SI(name="psj", bits=8, stride=1, lower_bound=3, upper_bound=9, explicit_name=True) + x),
        ("vs", c.ValueSet(8, "global", 16, 5)), ("vs_stack", c.ValueSet(8, "stack_0x400", 0, x)),
        ("tsi", c.TSI(16, name="ptsi", explicit_name=True)),
    ]
    return out


def _arg(a):
    if isinstance(a, claripy.ast.Base):
        return dump(a)
    if isinstance(a, float):
        return ["float", "nan" if math.isnan(a) else a.hex()]
    if isinstance(a, (int, str, bool)) or a is None:
        return [type(a).__name__, a]
    return [type(a).__name__, repr(a)]


def _ann(a):
    st = getattr(a, "__dict__", {})
    return [type(a).__module__ + "." + type(a).__qualname__, sorted((k, repr(v)) for k, v in st.items())]


def dump(e):
    """canonical structural description: everything the six pickled fields determine"""
    return [type(e).__name__, e.op, e.length if hasattr(e, "length") else None, sorted(e.variables), bool(e.symbolic),
            [_ann(a) for a in e.annotations], [_arg(a) for a in e.args]]


def _canon(d):
    """dump with every annotation list sorted: equality modulo annotation order"""
    if isinstance(d, list) and len(d) == 7 and isinstance(d[5], list) and isinstance(d[6], list):
        return [d[0], d[1], d[2], d[3], d[4], sorted(json.dumps(a) for a in d[5]), [_canon(a) for a in d[6]]]
    return d


def _lab(base, a, b):
    a = json.loads(json.dumps(a))
    b = json.loads(json.dumps(b))
    return "pickle/ast-xproc-annotation-order" if _canon(a) == _canon(b) else base


def sexpr(e):
    try:
        return claripy.backends.z3.convert(e).sexpr()
    except Exception as ex:  # noqa: BLE001
        return "UNCONVERTIBLE " + type(ex).__name__


def _equivalent(a, b):
    from .pickles_equiv import equivalent
    return equivalent(a, b)


def _spawn(args, hashseed):
    env = dict(os.environ)
    env["PYTHONHASHSEED"] = str(hashseed)
    env["PYTHONPATH"] = ROOT + (os.pathsep + env["PYTHONPATH"] if env.get("PYTHONPATH") else "")
    env["PYTHONDONTWRITEBYTECODE"] = "1"
    return subprocess.run([sys.executable, "-m", "vf.rtc.pickles", *args], env=env, capture_output=True, text=True, timeout=900)


# ------------------------------------------------------------------------------------------------
# task: expressions

def asts(seed=0, known_labels=(), nseeds=2, shard=0, nshards=1):
    t0 = time.time()
    items = build_asts()
    fails = []
    n_fail = 0
    labels = {}
    known_hits = {}
    evaluations = 0
    distinct = set()
    samples = []

    known_w = {}

    def fail(label, name, expected, got, detail, extra=None):
        nonlocal n_fail
        if driver.known(label, known_labels):
            known_hits[label] = known_hits.get(label, 0) + 1
            kw_ = {"ast": name, "expected": expected, "got": got}
            kw_.update(extra or {})
            known_w.setdefault(label, kw_)
            return
        n_fail += 1
        labels[label] = labels.get(label, 0) + 1
        if len(fails) < 5 and not any(f["label"] == label for f in fails):
            w = {"ast": name, "expected": expected, "got": got}
            w.update(extra or {})
            fails.append({"label": label, "kind": "bounded", "witness": w, "detail": detail[:400]})

    # in-process: identity, every protocol
    if shard == 0:
        for name, e in items:
            for proto in range(2, pickle.HIGHEST_PROTOCOL + 1):
                evaluations += 1
                distinct.add((name, "inproc"))
                try:
                    back = pickle.loads(pickle.dumps(e, proto))
                except Exception as ex:  # noqa: BLE001
                    fail(f"pickle/ast-exception-{type(ex).__name__}", name, "round trip", repr(ex), f"{name}: {ex!r}", {"mode": "inproc", "proto": proto})
                    break
                if back is not e:
                    fail("pickle/ast-identity", name, "the same object", dump(back), f"{name}: loads(dumps(e)) is not e (protocol {proto})",
                         {"mode": "inproc", "proto": proto})
                    break
        # the non-AST arguments of a node (integers, floats, strings, FSort, RM) are VALUES: a pickled copy - which is what a fresh process
        # gets when the node itself is not found in its hash-cons table - must equal the original, or the unpickled expression is not
        # structurally equal to the natively built one (and code that compares the argument, e.g. `sort == FSORT_DOUBLE`, takes another path)
        seen_args = set()
        for name, e in items:
            for node in [e, *[x for x in e.children_asts()]]:
                for k, a_ in enumerate(node.args):
                    if isinstance(a_, claripy.ast.Base) or (type(a_).__name__, repr(a_)) in seen_args:
                        continue
                    seen_args.add((type(a_).__name__, repr(a_)))
                    evaluations += 1
                    try:
                        cp = pickle.loads(pickle.dumps(a_, -1))
                        if isinstance(a_, float) and math.isnan(a_):
                            same = type(cp) is float and math.isnan(cp)          # NaN: unequal to itself and hashed by identity, by definition
                        else:
                            same = type(cp) is type(a_) and cp == a_ and (getattr(a_, "__hash__", None) is None or hash(cp) == hash(a_))
                    except Exception as ex:  # noqa: BLE001
                        cp, same = repr(ex), False
                    if not same:
                        fail("pickle/ast-argument-copy-not-equal", name, repr(a_), repr(cp),
                             f"{name}: argument {k} of a {node.op} node, {a_!r} ({type(a_).__name__}), does not equal its own pickled copy: in a fresh process the "
                             "unpickled expression is not structurally equal to the original", {"mode": "inproc-arg", "op": node.op})
        # a list sharing sub-terms, and identity after the only reference is gone and the node rebuilt
        blob = pickle.dumps([e for _, e in items], -1)
        back = pickle.loads(blob)
        evaluations += 1
        if not all(a is b for a, (_, b) in zip(back, items)):
            fail("pickle/ast-identity", "list", "same objects", "different", "list of all expressions: identity lost", {"mode": "inproc-list"})
        del back
        gc.collect()

    # cross-process, both directions
    rng = random.Random(f"{seed}/asts")
    seeds = [rng.randrange(1, 4294967295) for _ in range(nseeds * nshards)][shard::nshards]
    mine = [dump(e) for _, e in items]
    mysx = [sexpr(e) for _, e in items]
    for hs in seeds:
        d = tempfile.mkdtemp(prefix="rtc_pk_")
        try:
            inp = os.path.join(d, "in.pkl")
            with open(inp, "wb") as fh:
                pickle.dump([e for _, e in items], fh, -1)
            p = _spawn(["child-asts", d], hs)
            if p.returncode != 0:
                fail("pickle/ast-xproc-child-crash", "all", "child exits 0", p.stderr[-600:], "child interpreter failed: " + p.stderr[-300:],
                     {"mode": "xproc", "hashseed": hs})
                continue
            res = json.load(open(os.path.join(d, "out.json")))
            with open(os.path.join(d, "back.pkl"), "rb") as fh:
                back = pickle.load(fh)
            with open(os.path.join(d, "own.pkl"), "rb") as fh:
                own = pickle.load(fh)
            for i, (name, e) in enumerate(items):
                evaluations += 3
                distinct.add((name, "xproc"))
                ex = {"mode": "xproc", "hashseed": hs}
                if res["dumps"][i] != json.loads(json.dumps(mine[i])):
                    fail(_lab("pickle/ast-xproc-structure", mine[i], res["dumps"][i]), name, mine[i], res["dumps"][i], f"{name}: structure differs in a process with PYTHONHASHSEED={hs}", ex)
                elif res["sexprs"][i] != mysx[i]:
                    eq = _equivalent(e, back[i])
                    if eq is False:
                        fail("pickle/ast-xproc-meaning", name, mysx[i], res["sexprs"][i], f"{name}: z3 translation differs and is not equivalent", ex)
                # hash-consing after unpickling (C06 + C18): in the child, the unpickled node and the same expression built natively there have
                # the same structure => they must be ONE object, stored under the hash of that structure
                if "identity" in res and res["dumps"][i] == res["own_dumps"][i] and res["native_consed"][i] and not res["identity"][i]:
                    fail("pickle/ast-xproc-not-hash-consed", name, "the node that building the expression natively returns", "a second node with the same structure",
                         f"{name}: in a process with PYTHONHASHSEED={hs} the unpickled expression and the natively built one are different objects (replace(), identity tests and caches keyed by hash miss it)", ex)
                if "hash_ok" in res and not res["hash_ok"][i]:
                    fail("pickle/ast-xproc-foreign-hash", name, "hash of the node's own structure", "the hash stored in the pickle",
                         f"{name}: an unpickled node carries a hash that is not the hash of its structure in this process (PYTHONHASHSEED={hs})", ex)
                if dump(back[i]) != mine[i]:
                    fail(_lab("pickle/ast-xproc-roundtrip", mine[i], dump(back[i])), name, mine[i], dump(back[i]), f"{name}: parent->child->parent round trip changed the structure", ex)
                if dump(own[i]) != mine[i]:
                    fail(_lab("pickle/ast-xproc-foreign", mine[i], dump(own[i])), name, mine[i], dump(own[i]),
                         f"{name}: the same expression built and pickled in a process with PYTHONHASHSEED={hs} unpickles to a different structure", ex)
                elif _equivalent(e, own[i]) is False:
                    fail("pickle/ast-xproc-meaning", name, mysx[i], sexpr(own[i]), f"{name}: foreign pickle not equivalent", ex)
            if len(samples) < 2:
                samples.append({"hashseed": hs, "n_asts": len(items), "child_identity_hits": res.get("identity_hits"),
                                "example": {"ast": items[3][0], "dump": mine[3]}})
        finally:
            for fn in ("in.pkl", "out.json", "back.pkl", "own.pkl"):
                try:
                    os.unlink(os.path.join(d, fn))
                except OSError:
                    pass
            try:
                os.rmdir(d)
            except OSError:
                pass
    return {"status": "violated" if n_fail else "ok", "evaluations": evaluations, "distinct_nontrivial": len(distinct),
            "failures": fails, "n_failures": n_fail, "failure_labels": labels, "known_hits": known_hits, "known_witnesses": known_w,
            "samples": samples, "reason": "",
            "rule": f"{len(items)} expressions of all sorts (plain, annotated, VSA-annotated): in-process identity for pickle protocols 2..5; "
                    f"cross-process with PYTHONHASHSEED in {seeds}: structure, z3 translation, both directions; distinct = (expression, mode)",
            "wall_s": round(time.time() - t0, 2)}


def replay_asts(task, failure):
    w = failure["witness"]
    kw = dict(task.get("kwargs") or {})
    kw["known_labels"] = []
    r = asts(**kw)
    hit = [f for f in r["failures"] if f["label"] == failure["label"]]
    if hit:
        return {"reproduced": True, "text": hit[0]["detail"] + " | witness " + json.dumps(hit[0]["witness"], default=str)[:600]}
    return {"reproduced": False, "text": f"expression {w.get('ast')}: round trips are clean now"}


# ------------------------------------------------------------------------------------------------
# task: solver objects across processes

def _freeze(x):
    if isinstance(x, list):
        return tuple(_freeze(i) for i in x)
    return x


def solvers_xproc(fam, cfg, denom=1, shard=0, nshards=1, seed=0, known_labels=(), batch=400):
    """prefix history in this process -> pickle -> a child interpreter (random PYTHONHASHSEED) unpickles and
    answers the suffix + probes; judged there against the oracles"""
    t0 = time.time()
    vars = histories.FAMILIES[fam]["vars"]
    F = histories.FAMILIES[fam]
    acc = histories.Acc(known_labels)
    sm = histories.Sampler(seed, (fam, "xproc", json.dumps(cfg, sort_keys=True)), denom, shard, nshards)
    rng = random.Random(f"{seed}/xproc/{fam}/{shard}")
    items = []
    total = 0
    for i, (kind, steps) in enumerate(histories.gen_pickle(fam)):
        total += 1
        if not sm.keep(i):
            continue
        cut = next(k for k, s in enumerate(steps) if s["op"] == "pickle")
        prefix = steps[:cut]
        suffix = [{k: v for k, v in s.items() if k != "on"} for s in steps[cut + 1:] if s.get("on") == 1]
        r = driver.run_history(cfg, vars, prefix, keep=True)
        acc.evaluations += r["checks"]
        if r["failures"] and any(not f["benign"] for f in r["failures"]):
            for f in r["failures"]:
                if not driver.known(f["label"], known_labels) and not f["benign"]:
                    # a failure before the pickle: reported by the other tasks; here only counted
                    acc.kinds["prefix-failed"] = acc.kinds.get("prefix-failed", 0) + 1
            continue
        run = r["run"]
        try:
            blob = pickle.dumps(run.solvers[0], -1)
        except Exception as ex:  # noqa: BLE001
            f = driver.Failure(step=cut, label=f"pickle/exception-{type(ex).__name__}", expected="a pickle", got=repr(ex), detail="", benign=False)
            _record(acc, cfg, vars, steps, f, known_labels)
            continue
        items.append({"cfg": cfg, "vars": vars, "G": sorted(run.G[0], key=repr), "added": [c for st in prefix if st["op"] == "add" for c in st["c"]],
                      "prefix": prefix, "suffix": suffix, "blob": base64.b64encode(blob).decode()})
    hs_used = []
    for k in range(0, len(items), batch):
        chunk = items[k:k + batch]
        hs = rng.randrange(1, 4294967295)
        hs_used.append(hs)
        d = tempfile.mkdtemp(prefix="rtc_pk_")
        try:
            with open(os.path.join(d, "items.json"), "w") as fh:
                json.dump(chunk, fh)
            p = _spawn(["child-solvers", d], hs)
            if p.returncode != 0:
                return {"status": "undecided", "evaluations": acc.evaluations, "distinct_nontrivial": 0, "failures": [], "n_failures": 0,
                        "samples": [], "reason": "child interpreter failed: " + p.stderr[-800:]}
            out = json.load(open(os.path.join(d, "out.json")))
        finally:
            for fn in ("items.json", "out.json"):
                try:
                    os.unlink(os.path.join(d, fn))
                except OSError:
                    pass
            try:
                os.rmdir(d)
            except OSError:
                pass
        for it, res in zip(chunk, out):
            acc.histories += 1
            acc.evaluations += res["checks"]
            steps = it["prefix"] + [{"op": "pickle"}] + [dict(s, on=1) for s in it["suffix"]]
            if res["nontrivial"]:
                acc.distinct.add(histories._h(json.dumps(cfg, sort_keys=True), steps, "xproc"))
            if res.get("undecided"):
                acc.undecided.append({"steps": steps, "why": res["undecided"]})
            fl = []
            for f in res["failures"]:
                f = driver.Failure(f)
                f["step"] = f["step"] + len(it["prefix"]) + 1
                f["label"] = "xproc/" + f["label"]
                fl.append(f)
            if fl:
                driver.relabel(cfg, vars, steps, fl)     # neutral variant: in-process, branch() instead of the pickle
            for f in fl:
                _record(acc, cfg, vars, steps, f, known_labels, extra={"cross_process": True, "hashseed": hs})
            if len(acc.samples) < 2 and res["nontrivial"]:
                acc.samples.append({"cfg": cfg, "steps": steps, "hashseed": hs, "answers": res.get("answers", [])[:8]})
    rule = (f"family {fam}: 1 in {denom} of {total} histories of gen_pickle; the prefix runs here, the pickled object is loaded in a child "
            f"interpreter with PYTHONHASHSEED {hs_used} which answers the suffix and the probes; shard {shard}/{nshards}")
    return acc.result(rule, cfg=cfg, family=fam, wall_s=round(time.time() - t0, 2))


def _record(acc, cfg, vars, steps, f, known_labels, extra=None):
    lab = f["label"]
    w = driver.witness(cfg, vars, steps, f)
    w.update(extra or {})
    if driver.known(lab, known_labels):
        acc.known_hits[lab] = acc.known_hits.get(lab, 0) + 1
        acc.known_witness.setdefault(lab, w)
        return
    acc.n_failures += 1
    acc.fail_labels[lab] = acc.fail_labels.get(lab, 0) + 1
    if len(acc.failures) < 5 and not any(e["label"] == lab for e in acc.failures):
        acc.failures.append({"label": lab, "kind": "bounded", "witness": w,
                             "detail": f"{driver.fmt_step(steps[min(f['step'], len(steps) - 1)])}: reference expects "
                                       f"{json.dumps(f['expected'], default=str)[:160]}, got {json.dumps(f['got'], default=str)[:160]}"})


def replay_xproc(task, failure):
    """re-run the one history: prefix here, unpickle + suffix in a fresh child with the recorded hash seed"""
    w = failure["witness"]
    vars = w["vars"]
    cfg = w["cfg"]
    steps = w["steps"]
    cut = next(k for k, s in enumerate(steps) if s["op"] == "pickle")
    prefix = steps[:cut]
    suffix = [{k: v for k, v in s.items() if k != "on"} for s in steps[cut + 1:]]
    r = driver.run_history(cfg, vars, prefix, keep=True)
    run = r["run"]
    blob = pickle.dumps(run.solvers[0], -1)
    item = {"cfg": cfg, "vars": vars, "G": sorted(run.G[0], key=repr), "added": [c for st in prefix if st["op"] == "add" for c in st["c"]],
            "prefix": prefix, "suffix": suffix, "blob": base64.b64encode(blob).decode()}
    d = tempfile.mkdtemp(prefix="rtc_pk_")
    try:
        with open(os.path.join(d, "items.json"), "w") as fh:
            json.dump([item], fh)
        p = _spawn(["child-solvers", d], w.get("hashseed", 12345))
        if p.returncode != 0:
            return {"reproduced": False, "text": "child failed: " + p.stderr[-500:]}
        out = json.load(open(os.path.join(d, "out.json")))[0]
    finally:
        for fn in ("items.json", "out.json"):
            try:
                os.unlink(os.path.join(d, fn))
            except OSError:
                pass
        try:
            os.rmdir(d)
        except OSError:
            pass
    text = f"claripy.{cfg['cls']} after {[driver.fmt_step(s) for s in prefix]}, pickled, loaded with PYTHONHASHSEED={w.get('hashseed')}:\n" + \
        "\n".join("  " + json.dumps(a, default=str)[:300] for a in out.get("answers", []))
    hit = [f for f in out["failures"] if driver.base_label("xproc/" + f["label"]) == driver.base_label(failure["label"])]
    if hit:
        return {"reproduced": True, "text": text + f"\n  FAILED clause {failure['label']}: expected {hit[0]['expected']}, got {hit[0]['got']}"}
    return {"reproduced": False, "text": text + "\n  all answers match the reference now"}


# ------------------------------------------------------------------------------------------------
# child side

def _child_asts(d):
    with open(os.path.join(d, "in.pkl"), "rb") as fh:
        loaded = pickle.load(fh)
    own = [e for _, e in build_asts()]
    hits = sum(1 for a, b in zip(loaded, own) if a is b)
    from claripy.ast import Base as _Base

    def _hash_ok(e, seen=None):
        """every node of the unpickled expression carries the hash of its own structure (the key it is stored under)"""
        seen = set() if seen is None else seen
        if id(e) in seen:
            return True
        seen.add(id(e))
        if e.hash() != _Base._calc_hash(e.op, e.args, e.annotations, e.length):
            return False
        return all(_hash_ok(a, seen) for a in e.args if isinstance(a, _Base))
    out = {"dumps": [dump(e) for e in loaded], "sexprs": [sexpr(e) for e in loaded], "identity_hits": hits,
           "identity": [a is b for a, b in zip(loaded, own)], "own_dumps": [dump(e) for e in own], "hash_ok": [_hash_ok(e) for e in loaded],
           # baseline: is this expression hash-consed at all when built twice natively?  (annotation classes without a value-based __hash__
           # are not: the recorded C06 finding; only expressions that ARE must also be after unpickling)
           "native_consed": [a is b for a, (_, b) in zip(own, build_asts())],
           "hashseed": os.environ.get("PYTHONHASHSEED")}
    with open(os.path.join(d, "back.pkl"), "wb") as fh:
        pickle.dump(loaded, fh, -1)
    # expressions built natively under this interpreter's hash seed
    del loaded
    with open(os.path.join(d, "own.pkl"), "wb") as fh:
        pickle.dump(own, fh, -1)
    with open(os.path.join(d, "out.json"), "w") as fh:
        json.dump(out, fh)


def _child_solvers(d):
    items = json.load(open(os.path.join(d, "items.json")))
    out = []
    for it in items:
        vars = it["vars"]
        res = {"failures": [], "checks": 0, "nontrivial": False}
        try:
            s = pickle.loads(base64.b64decode(it["blob"]))
        except Exception as ex:  # noqa: BLE001
            res["failures"].append({"step": -1, "label": f"pickle/load-exception-{type(ex).__name__}", "expected": "a solver", "got": repr(ex),
                                    "detail": "", "benign": False})
            out.append(res)
            continue
        init = {"solver": s, "G": [_freeze(g) for g in it["G"]], "added": it["added"], "meta": {"unpickled": True}}
        try:
            r = driver.run_history(it["cfg"], vars, it["suffix"], initial=init)
        except driver.OracleDisagreement as e:
            res["undecided"] = "oracle disagreement: " + str(e)[:300]
            out.append(res)
            continue
        res["failures"] = [dict(f) for f in r["failures"]]
        res["checks"] = r["checks"]
        res["nontrivial"] = r["nontrivial"]
        res["undecided"] = r["undecided"]
        res["answers"] = [[driver.fmt_step(st), k, driver._jsonable(v)] for (_i, st, k, v) in r["transcript"]]
        out.append(res)
    with open(os.path.join(d, "out.json"), "w") as fh:
        json.dump(out, fh, default=str)


if __name__ == "__main__":
    # run through the importable module so that pickled classes are vf.rtc.pickles.*, not __main__.*
    from vf.rtc import pickles as _P
    if sys.argv[1] == "child-asts":
        _P._child_asts(sys.argv[2])
    elif sys.argv[1] == "child-solvers":
        _P._child_solvers(sys.argv[2])
